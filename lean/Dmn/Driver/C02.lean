import Dmn.Driver.Transcend
import Dmn.Model.Sexp
import Dmn.Model.DecWire
import Dmn.Model.DecString
import Dmn.Model.DecSpec
import Dmn.Model.DecFeel

/-! Driver handler for C02.

* `(c02 op <name> A [B])` with finite operands `(n neg coeff exp)` (for `rescale` B is the
  integer scale) → `(op R F S)`: `R` the model of the `dec_*` function (`dec.rs`), `F` the model
  of the `FeelNumber` method/operator (`number.rs`; `(none)` for `None`), `S` the specification's
  verdict on `R` (`true`/`false`/`na`);
* `(c02 judgev <name> A [B] R)` → `(judge S)`: the same for a reduced (`FeelNumber`-level) result:
  some representation of the value of `R` meets the specification;
* `(c02 judge <name> A [B] R)` → `(judge S)`: the specification applied to a given result;
* `(c02 feel <name> X [Y])` with operands that may be special → `(feel F)`: `FeelNumber`
  operators on values that may already be infinite / NaN;
* `(c02 feelnum <name> X [Y])` → `(feelnum F)`: the operator / built-in as FEEL sees it
  (`Model/DecFeel.lean`: the zero-divisor, sign and scale-range guards of builders.rs / core.rs
  around the `FeelNumber` method); `F` is a result or `null`;
* `(c02 modexact A B)` → `(modexact true|false)`: `modExact` — every intermediate step of
  `a − b·floor(a / b)` is exact (the hypothesis of `modulo_correct_partial`);
* `(c02 cmp A B)` → `(cmp lt|eq|gt)`. -/

namespace Dmn.Driver.C02
open Dmn Dmn.D128 Dmn.DecWire

def two : D128 := ⟨false, 2, 0⟩

/-- raw (`dec.rs`) result, FeelNumber-level result, specification verdict -/
def opAnswer (name : String) (a : D128) (b : Option D128) (k : Option Int) : Option (String × String × String) :=
  let sb (p : Prop) [Decidable p] : String := boolStr (decide p)
  match name, b, k with
  | "add", some b, _ =>
    let r := D128.add a b
    some (showR r, showR r.reduce, sb (AddSpec a b r))
  | "sub", some b, _ =>
    let r := D128.sub a b
    some (showR r, showR r.reduce, sb (AddSpec a (D128.flip b) r))
  | "mul", some b, _ =>
    let r := D128.mul a b
    some (showR r, showR r.reduce, sb (MulSpec a b r))
  | "div", some b, _ =>
    let r := D128.div a b
    some (showR r, showR r.reduce, sb (DivSpec a b r))
  | "neg", none, _ =>
    let r := D128.negate a
    some (showDec r, showDec r, sb (r.coeff = a.coeff ∧ r.exp = a.exp ∧ r.neg = (!a.neg && a.coeff != 0)))
  | "abs", none, _ =>
    let r := D128.abs a
    some (showDec r, showDec r, sb (r.coeff = a.coeff ∧ r.exp = a.exp ∧ r.neg = false))
  | "reduce", none, _ =>
    let r := D128.reduce a
    some (showDec r, showDec r, sb (SameValue r a ∧ r.neg = a.neg ∧ WF r ∧
      (r.coeff = 0 ∨ r.coeff % 10 ≠ 0 ∨ r.exp = eTop)))
  | "floor", none, _ =>
    let r := D128.floor a
    some (showDec r, showDec (D128.reduce r), sb (FloorSpec a r))
  | "ceiling", none, _ =>
    let r := D128.ceiling a
    some (showDec r, showDec (D128.reduce r), sb (CeilSpec a r))
  | "trunc", none, _ =>
    let r := D128.trunc a
    some (showDec r, showDec r, "na")
  | "fract", none, _ =>
    let r := D128.fract a
    some (showR r, showR r, "na")
  | "rescale", none, some k =>
    let r := D128.rescale a k
    some (showR r, showR r, sb (RescaleSpec a k r))
  | "sqrt", none, _ =>
    let r := D128.sqrt a
    some (showR r, showOpt (FNum.sqrt (.fin a)), sb (SqrtSpec a r))
  | "remainder", some b, _ =>
    let r := D128.remainder a b
    some (showR r, showR r, "na")
  | "modulo", some b, _ =>
    let r := FNum.modulo (.fin a) (.fin b)
    -- the verdict of `ModuloSpec` on this (reduced) answer is asked for separately (`judgev modulo`)
    some (showR r, showR r, "na")
  | "even", none, _ =>
    -- raw: `dec_is_zero(dec_remainder(a, 2))` (dec.rs); F: `FeelNumber::even`
    let raw := (D128.remainder a ⟨false, 2, 0⟩).isZero
    let r := FNum.even (.fin a)
    -- specification (applies to the FeelNumber level): the value is an even integer
    let spec := match D128.toInt? a with
      | some i => i % 2 == 0
      | none => false
    some (boolStr raw, boolStr r, boolStr (r == spec))
  | "odd", none, _ =>
    let raw := D128.isInteger a && !(D128.remainder a ⟨false, 2, 0⟩).isZero
    let r := FNum.odd (.fin a)
    let spec := match D128.toInt? a with
      | some i => i % 2 == 1
      | none => false
    some (boolStr raw, boolStr r, boolStr (r == spec))
  | "isint", none, _ =>
    -- raw: `dec_is_integer` = decQuadIsInteger (exponent 0); F: `FeelNumber::is_integer`
    let r := FNum.isInteger (.fin a)
    some (boolStr (D128.isInteger a), boolStr r, boolStr (r == D128.isIntegral a))
  | _, _, _ => none

def judge (name : String) (a : D128) (b : Option D128) (k : Option Int) (r : D128R) : Option Bool :=
  match name, b, k with
  | "add", some b, _ => some (decide (AddSpec a b r))
  | "sub", some b, _ => some (decide (AddSpec a (D128.flip b) r))
  | "mul", some b, _ => some (decide (MulSpec a b r))
  | "div", some b, _ => some (decide (DivSpec a b r))
  | "sqrt", none, _ => some (decide (SqrtSpec a r))
  | "rescale", none, some k => some (decide (RescaleSpec a k r))
  -- the mathematical modulo `a − b·⌊a/b⌋`, computed exactly, rounded once (`b ≠ 0`)
  | "modulo", some b, _ => if b.coeff = 0 then none else some (decide (ModuloSpec a b r))
  | "floor", none, _ => match r with
    | .fin d => some (decide (FloorSpec a d))
    | _ => some false
  | "ceiling", none, _ => match r with
    | .fin d => some (decide (CeilSpec a d))
    | _ => some false
  | _, _, _ => none

/-- representations of the value of `d` with up to 34 digits (a `FeelNumber` result is reduced,
the specifications speak about the unreduced `decQuad` result) -/
def unreductions (d : D128) : List D128 :=
  (List.range 35).filterMap fun (j : Nat) =>
    if d.coeff * 10 ^ j < 10 ^ 34 ∨ j = 0 then some ⟨d.neg, d.coeff * 10 ^ j, d.exp - (j : Int)⟩ else none

/-- the specification applied to a `FeelNumber`-level result: some representation of its value
meets the specification of the operation -/
def judgeV (name : String) (a : D128) (b : Option D128) (k : Option Int) (r : D128R) : Option Bool :=
  match r with
  | .fin d =>
    let rs := (unreductions d).map (fun d' => judge name a b k (.fin d'))
    if rs.any (· == none) then none else some (rs.any (· == some true))
  | _ => judge name a b k r

/-- Number of decimal digits of a positive natural (0 for 0). -/
def natDigitsCount (n : Nat) : Nat := if n == 0 then 0 else (Nat.toDigits 10 n).length

/-- `r` is within two units in the 34th significant digit of the exact integer power `a ^ n`
(`n` an integer, `a` non-zero; the exact power is the rational `num / den · 10^e`, computed with
unbounded naturals). `none`: outside what this judge covers (zero base, huge exponent). -/
def judgePowInt (a : D128) (n : Int) (r : D128R) : Option Bool :=
  if a.coeff == 0 ∨ n.natAbs * natDigitsCount a.coeff > 40000 then none
  else
    match r with
    | .fin d =>
      if d.coeff == 0 then none else   -- underflow to zero: rounding at the bottom of the range, not judged here
      -- exact value: sign · num/den · 10^e10
      let k := n.natAbs
      let p := a.coeff ^ k
      let (num, den, e10) : Nat × Nat × Int := if n ≥ 0 then (p, 1, a.exp * k) else (1, p, -(a.exp * k))
      let neg := a.neg && (k % 2 == 1)
      -- about 45 significant digits of num/den: q = floor(num · 10^t / den)
      let t : Nat := 45 + natDigitsCount den
      let q := num * 10 ^ t / den
      -- exact ≈ q · 10^(e10 - t); its leading digit has weight 10^(digits q - 1 + e10 - t)
      let m : Int := (natDigitsCount q : Int) + e10 - t          -- exact ∈ [10^(m-1), 10^m)
      let ulp : Int := m - 34                                      -- exponent of one unit in the 34th digit
      if m - 1 < -6143 ∨ m - 1 > 6144 then none else               -- subnormal or beyond the range: fewer digits
      -- compare d.coeff · 10^d.exp with q · 10^(e10 - t), scaled to a common exponent
      let lo : Int := min (min d.exp (e10 - t)) ulp
      let x : Nat := d.coeff * 10 ^ (d.exp - lo).toNat
      let y : Nat := q * 10 ^ (e10 - (t : Int) - lo).toNat
      let tol : Nat := 2 * 10 ^ (ulp - lo).toNat + 10 ^ (ulp - lo).toNat / 1000
      let diff := if x ≥ y then x - y else y - x
      some (decide (d.neg = neg ∨ d.coeff = 0) && decide (diff ≤ tol))
    | _ => none

/-- Does the exact integer power `a ^ n` lie in the range of normal decimal128 numbers
(`10^-6143 ≤ |a^n| < 10^6145`)?  `none`: zero base or huge exponent (not judged). -/
def powIntInRange (a : D128) (n : Int) : Option Bool :=
  if a.coeff == 0 ∨ n.natAbs * natDigitsCount a.coeff > 40000 then none
  else
    let k := n.natAbs
    let p := a.coeff ^ k
    -- |a^n| = p · 10^(a.exp·k) resp. 1/p · 10^(-a.exp·k): exponent of the leading digit
    let lead : Int :=
      if n ≥ 0 then (natDigitsCount p : Int) - 1 + a.exp * k
      else
        -- 1/p ∈ (10^-d, 10^-(d-1)] with d = digits p: leading exponent is -d, or -(d-1) when p is a power of ten
        let d := natDigitsCount p
        (if p == 10 ^ (d - 1) then -((d : Int) - 1) else -(d : Int)) - a.exp * k
    some (decide (-6143 ≤ lead) && decide (lead ≤ 6144))

def feelOp (name : String) (x : D128R) (y : Option D128R) (k : Option Int) : Option String :=
  match name, y, k with
  | "add", some y, _ => some (showR (FNum.add x y))
  | "sub", some y, _ => some (showR (FNum.sub x y))
  | "mul", some y, _ => some (showR (FNum.mul x y))
  | "div", some y, _ => some (showR (FNum.div x y))
  | "modulo", some y, _ => some (showR (FNum.modulo x y))
  | "neg", none, _ => some (showR (FNum.neg x))
  | "abs", none, _ => some (showR (FNum.abs x))
  | "floor", none, _ => some (showR (FNum.floor x))
  | "ceiling", none, _ => some (showR (FNum.ceiling x))
  | "round", none, some k => some (showR (FNum.round x k))
  | "sqrt", none, _ => some (showOpt (FNum.sqrt x))
  | "cmp", some y, _ => some (showOrd (FNum.cmp x y))
  | "eq", some y, _ => some (boolStr (FNum.eq x y))
  | "show", none, _ => some (match plainR x with
      | some t => toString (Sexp.ofChars t)
      | none => "panic")
  | _, _, _ => none

def feelNumOp (name : String) (x : D128R) (y : Option D128R) : Option String :=
  let sh (r : Option D128R) : String := match r with
    | some v => showR v
    | none => "null"
  match name, y with
  | "add", some y => some (sh (FeelNum.add x y))
  | "sub", some y => some (sh (FeelNum.sub x y))
  | "mul", some y => some (sh (FeelNum.mul x y))
  | "div", some y => some (sh (FeelNum.div x y))
  | "modulo", some y => some (sh (FeelNum.modulo x y))
  | "decimal", some y => some (sh (FeelNum.decimal x y))
  | "neg", none => some (sh (FeelNum.neg x))
  | "abs", none => some (sh (FeelNum.abs x))
  | "floor", none => some (sh (FeelNum.floor x))
  | "ceiling", none => some (sh (FeelNum.ceiling x))
  | "sqrt", none => some (sh (FeelNum.sqrt x))
  | _, _ => none

def handle (args : List Sexp) : String :=
  match args with
  | [.atom "feelnum", .atom name, x] =>
    match decR? x with
    | some x =>
      match feelNumOp name x none with
      | some s => s!"(feelnum {s})"
      | none => "(error unknown-op)"
    | none => "(error bad-operand)"
  | [.atom "feelnum", .atom name, x, y] =>
    match decR? x, decR? y with
    | some x, some y =>
      match feelNumOp name x (some y) with
      | some s => s!"(feelnum {s})"
      | none => "(error unknown-op)"
    | _, _ => "(error bad-operand)"
  | [.atom "cmp", a, b] =>
    match dec? a, dec? b with
    | some a, some b => s!"(cmp {showOrd (D128.cmp a b)})"
    | _, _ => "(error bad-operand)"
  | [.atom "op", .atom name, a] =>
    match dec? a with
    | some a =>
      match opAnswer name a none none with
      | some (r, f, s) => s!"(op {r} {f} {s})"
      | none => "(error unknown-op)"
    | none => "(error bad-operand)"
  | [.atom "op", .atom name, a, b] =>
    match dec? a with
    | some a =>
      let ans := match dec? b with
        | some b => opAnswer name a (some b) none
        | none => match Sexp.int? b with
          | some k => opAnswer name a none (some k)
          | none => none
      match ans with
      | some (r, f, s) => s!"(op {r} {f} {s})"
      | none => "(error unknown-op)"
    | none => "(error bad-operand)"
  | [.atom "modexact", a, b] =>
    match dec? a, dec? b with
    | some a, some b => s!"(modexact {boolStr (modExact a b)})"
    | _, _ => "(error bad-operand)"
  | [.atom "judgepow", a, n, r] =>
    match dec? a, Sexp.int? n, decR? r with
    | some a, some n, some r =>
      match judgePowInt a n r with
      | some v => s!"(judge {boolStr v})"
      | none => "(judge na)"
    | _, _, _ => "(error bad-operand)"
  | [.atom "powrange", a, n] =>
    match dec? a, Sexp.int? n with
    | some a, some n =>
      match powIntInRange a n with
      | some v => s!"(range {boolStr v})"
      | none => "(range na)"
    | _, _ => "(error bad-operand)"
  | [.atom "judgeln", a, r] =>
    match dec? a, decR? r with
    | some a, some (.fin d) =>
      if a.neg then "(judge na)"
      else match Dmn.Transcend.judgeLn a.coeff a.exp d.neg d.coeff d.exp with
        | some v => s!"(judge {boolStr v})"
        | none => "(judge na)"
    | some _, some _ => "(judge false)"
    | _, _ => "(error bad-operand)"
  | [.atom "judgeexp", a, r] =>
    match dec? a, decR? r with
    | some a, some (.fin d) =>
      match Dmn.Transcend.judgeExp a.neg a.coeff a.exp d.neg d.coeff d.exp with
      | some v => s!"(judge {boolStr v})"
      | none => "(judge na)"
    | some _, some _ => "(judge false)"
    | _, _ => "(error bad-operand)"
  | [.atom "judgev", .atom name, a, r] =>
    match dec? a, decR? r with
    | some a, some r =>
      match judgeV name a none none r with
      | some v => s!"(judge {boolStr v})"
      | none => "(judge na)"
    | _, _ => "(error bad-operand)"
  | [.atom "judgev", .atom name, a, b, r] =>
    match dec? a, decR? r with
    | some a, some r =>
      let v := match dec? b with
        | some b => judgeV name a (some b) none r
        | none => match Sexp.int? b with
          | some k => judgeV name a none (some k) r
          | none => none
      match v with
      | some v => s!"(judge {boolStr v})"
      | none => "(judge na)"
    | _, _ => "(error bad-operand)"
  | [.atom "judge", .atom name, a, r] =>
    match dec? a, decR? r with
    | some a, some r =>
      match judge name a none none r with
      | some v => s!"(judge {boolStr v})"
      | none => "(judge na)"
    | _, _ => "(error bad-operand)"
  | [.atom "judge", .atom name, a, b, r] =>
    match dec? a, decR? r with
    | some a, some r =>
      let v := match dec? b with
        | some b => judge name a (some b) none r
        | none => match Sexp.int? b with
          | some k => judge name a none (some k) r
          | none => none
      match v with
      | some v => s!"(judge {boolStr v})"
      | none => "(judge na)"
    | _, _ => "(error bad-operand)"
  | [.atom "feel", .atom name, x] =>
    match decR? x with
    | some x =>
      match feelOp name x none none with
      | some s => s!"(feel {s})"
      | none => "(error unknown-op)"
    | none => "(error bad-operand)"
  | [.atom "feel", .atom name, x, y] =>
    match decR? x with
    | some x =>
      let ans := match decR? y with
        | some y => feelOp name x (some y) none
        | none => match Sexp.int? y with
          | some k => feelOp name x none (some k)
          | none => none
      match ans with
      | some s => s!"(feel {s})"
      | none => "(error unknown-op)"
    | none => "(error bad-operand)"
  | _ => "(error bad-request)"

end Dmn.Driver.C02
