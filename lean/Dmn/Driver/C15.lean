import Dmn.Model.Sexp
import Dmn.Model.Calendar
import Dmn.Model.Temporal
import Dmn.Model.TemporalLocal

/-! Driver handler for C15. Requests (all numbers are integers):

* `(c15 date y m d)` — validity, weekday, day number: implementation model and calendar.
* `(c15 fromnum (yc ye) (mc me) (dc de))` — `date(y, m, d)` from decimals `c·10^e`.
* `(c15 dcmp y1 m1 d1 y2 m2 d2)` — `<`, `<=`, `>`, `>=`, `=` on dates.
* `(c15 cmp DT o DT o)` / `(c15 sub DT o DT o)` — date-times `(y m d h mi s ns zone)` with the
  oracle offset (`none` or seconds) of each.
* `(c15 ym y1 m1 d1 y2 m2 d2)` — `years and months duration(from, to)`.
* `(c15 dtd n)` / `(c15 ymd n)` — duration components.
* `(c15 prop DT o)` — year … second, time offset, timezone.
* `(c15 dtprops DT o)` — every property of a date-time incl. `weekday` (model), the written local
  components with the calendar's weekday (specification), and day of year, ISO week, ISO week year,
  Zeller weekday (specification of the calendar built-ins).
* `(c15 durops kind a b)` — `+`, unary `-`, binary `-`, `=`, `<` on two durations.
* `(c15 localoff <initial> (<instant> <offset> …) (DT …))` — for each written date and time the offset in
  force under the rules given: `(byRules readAsUtc)` (`zoneOffsetByRules`, `localOffsetReadAsUtc`).
* `(c15 conv V W)` — `date(V)`, `time(V)`, `date and time(V, W)`, `years and months duration(V, W)` on
  temporal values (`bifDateOf`, `bifTimeOf`, `bifDateTimeOf`, `bifYmDuration`) and, for the last, the
  specification: whole months between the (local) dates.
* `(c15 arith V W o o)` — `V + W`, `W + V`, `V - W`, `W - V` on temporal values (`feelAdd`, `feelSub`);
  values as the harness prints them: `(date y m d)`, `(time …)`, `(dt …)`, `(dtd n)`, `(ymd n)`.
-/

namespace Dmn.Driver.C15
open Dmn Dmn.Cal Dmn.Temporal

def zone? : Sexp → Option Zone
  | .atom "utc" => some .utc
  | .atom "local" => some .localZ
  | .list [.atom "offset", n] => (Sexp.int? n).map .offset
  | .list [.atom "zone", s] => (Sexp.chars? s).map .zone
  | _ => none

def dt? : Sexp → Option DateTime
  | .list [y, m, d, h, mi, s, ns, z] => do
    let y ← Sexp.int? y
    let m ← Sexp.nat? m
    let d ← Sexp.nat? d
    let h ← Sexp.nat? h
    let mi ← Sexp.nat? mi
    let s ← Sexp.nat? s
    let ns ← Sexp.nat? ns
    let z ← zone? z
    pure ⟨⟨y, m, d⟩, ⟨h, mi, s, ns, z⟩⟩
  | _ => none

def oracle? : Sexp → Option (Option Int)
  | .atom "none" => some none
  | x => (Sexp.int? x).map some

def dec? : Sexp → Option Dec
  | .list [c, e] => do
    let c ← Sexp.int? c
    let e ← Sexp.int? e
    pure ⟨c, e⟩
  | _ => none

def ordStr : Ord3 → String
  | .lt => "lt" | .eq => "eq" | .gt => "gt"

def resStr {α : Type} (f : α → String) : Res α → String
  | .val v => f v
  | .none => "none"
  | .panic => "panic"

def optStr {α : Type} (f : α → String) : Option α → String
  | some v => f v
  | none => "none"

def b (x : Bool) : String := if x then "true" else "false"

/-- Specification-side offset: explicit offsets and UTC are what is written; named and local
zones take the oracle value. -/
def specInstant (dt : DateTime) (o : Option Int) : Option Int :=
  match resolveOffset o dt.time.z with
  | some off =>
    if validDate dt.date.y dt.date.m dt.date.d && isValidTime dt.time.h dt.time.mi dt.time.s then
      some (instant dt.date.y dt.date.m dt.date.d dt.time.h dt.time.mi dt.time.s dt.time.ns off)
    else none
  | none => none

def isIntegral (x : Dec) : Bool :=
  if x.exp ≥ 0 then true else x.coeff % ((10 : Int) ^ (-x.exp).toNat) == 0

def decInt (x : Dec) : Int :=
  if x.exp ≥ 0 then x.coeff * (10 : Int) ^ x.exp.toNat else x.coeff / ((10 : Int) ^ (-x.exp).toNat)

def zoneStr : Zone → String
  | .utc => "utc"
  | .localZ => "local"
  | .offset o => s!"(offset {o})"
  | .zone n => s!"(zone {Sexp.ofChars n})"

def valueStr : Value → String
  | .null => "null"
  | .panic => "panic"
  | .date d => s!"(date {d.y} {d.m} {d.d})"
  | .time t => s!"(time {t.h} {t.mi} {t.s} {t.ns} {zoneStr t.z})"
  | .dateTime x => s!"(dt {x.date.y} {x.date.m} {x.date.d} {x.time.h} {x.time.mi} {x.time.s} {x.time.ns} {zoneStr x.time.z})"
  | .dtDur n => s!"(dtd {n})"
  | .ymDur n => s!"(ymd {n})"

def value? : Sexp → Option Value
  | .list [.atom "date", y, m, d] => do
    pure (.date ⟨← Sexp.int? y, ← Sexp.nat? m, ← Sexp.nat? d⟩)
  | .list [.atom "time", h, mi, s, ns, z] => do
    pure (.time ⟨← Sexp.nat? h, ← Sexp.nat? mi, ← Sexp.nat? s, ← Sexp.nat? ns, ← zone? z⟩)
  | .list [.atom "dt", y, m, d, h, mi, s, ns, z] => do
    pure (.dateTime ⟨⟨← Sexp.int? y, ← Sexp.nat? m, ← Sexp.nat? d⟩,
      ⟨← Sexp.nat? h, ← Sexp.nat? mi, ← Sexp.nat? s, ← Sexp.nat? ns, ← zone? z⟩⟩)
  | .list [.atom "dtd", n] => (Sexp.int? n).map .dtDur
  | .list [.atom "ymd", n] => (Sexp.int? n).map .ymDur
  | _ => none

def pairs? : List Sexp → Option (List (Int × Int))
  | [] => some []
  | a :: b :: r => do
    let a ← Sexp.int? a
    let b ← Sexp.int? b
    let r ← pairs? r
    pure ((a, b) :: r)
  | _ => none

def handle (args : List Sexp) : String :=
  match args with
  | [.atom "date", y, m, d] =>
    match Sexp.int? y, Sexp.nat? m, Sexp.nat? d with
    | some y, some m, some d =>
      -- `date(y, m, d)` with integral numbers; `lit`: `is_valid_date` alone (the literal route)
      let vi := (dateFromNumbers ⟨y, 0⟩ ⟨m, 0⟩ ⟨d, 0⟩).isSome
      let vl := isValidDate y m d
      let vs := validDate y m d
      let wi := resStr toString (Date.weekday ⟨y, m, d⟩)
      let z := daysFromCivil y m d
      let back := civilFromDays z
      s!"(((valid {b vi}) (lit {b vl}) (weekday {wi})) ((valid {b vs}) (weekday {Cal.weekday z}) (days {z}) (back {back.1} {back.2.1} {back.2.2})))"
    | _, _, _ => "(error bad-args)"
  | [.atom "fromnum", yr, mo, dy] =>
    match dec? yr, dec? mo, dec? dy with
    | some yr, some mo, some dy =>
      let m := match dateFromNumbers yr mo dy with
        | some d => s!"(date {d.y} {d.m} {d.d})"
        | none => "null"
      let sp :=
        if isIntegral yr && isIntegral mo && isIntegral dy &&
            validDate (decInt yr) (decInt mo) (decInt dy) && decide (-999999999 ≤ decInt yr) && decide (decInt yr ≤ 999999999) then
          s!"(date {decInt yr} {decInt mo} {decInt dy})"
        else "null"
      s!"({m} {sp})"
    | _, _, _ => "(error bad-args)"
  | [.atom "dcmp", y1, m1, d1, y2, m2, d2] =>
    match Sexp.int? y1, Sexp.nat? m1, Sexp.nat? d1, Sexp.int? y2, Sexp.nat? m2, Sexp.nat? d2 with
    | some y1, some m1, some d1, some y2, some m2, some d2 =>
      let a : Date := ⟨y1, m1, d1⟩
      let c : Date := ⟨y2, m2, d2⟩
      let za := daysFromCivil y1 m1 d1
      let zc := daysFromCivil y2 m2 d2
      s!"(({b (a.lt c)} {b (a.le c)} {b (a.gt c)} {b (a.ge c)} {b (a.eq c)}) ({b (decide (za < zc))} {b (decide (za ≤ zc))} {b (decide (za > zc))} {b (decide (za ≥ zc))} {b (decide (za = zc))}) ({b (dateLt y1 m1 d1 y2 m2 d2)}))"
    | _, _, _, _, _, _ => "(error bad-args)"
  | [.atom "cmp", x, ox, y, oy] =>
    match dt? x, oracle? ox, dt? y, oracle? oy with
    | some x, some ox, some y, some oy =>
      let m := resStr ordStr (compare x y ox oy)
      let sp := match specInstant x ox, specInstant y oy with
        | some i, some j => if i < j then "lt" else if j < i then "gt" else "eq"
        | _, _ => "none"
      s!"({m} {sp})"
    | _, _, _, _ => "(error bad-args)"
  | [.atom "sub", x, ox, y, oy] =>
    match dt? x, oracle? ox, dt? y, oracle? oy with
    | some x, some ox, some y, some oy =>
      let m := resStr toString (subtract x y ox oy)
      let sp := match specInstant x ox, specInstant y oy with
        | some i, some j => toString (i - j)
        | _, _ => "none"
      s!"({m} {sp})"
    | _, _, _, _ => "(error bad-args)"
  | [.atom "ym", y1, m1, d1, y2, m2, d2] =>
    match Sexp.int? y1, Sexp.nat? m1, Sexp.nat? d1, Sexp.int? y2, Sexp.nat? m2, Sexp.nat? d2 with
    | some y1, some m1, some d1, some y2, some m2, some d2 =>
      -- from = (y1 m1 d1), to = (y2 m2 d2); the code calls `to.ym_duration(from)`
      let m := Date.ymDuration ⟨y2, m2, d2⟩ ⟨y1, m1, d1⟩
      let sp := wholeMonths y1 m1 d1 y2 m2 d2
      s!"({m} {sp})"
    | _, _, _, _, _, _ => "(error bad-args)"
  | [.atom "dtd", n] =>
    match Sexp.int? n with
    | some n =>
      s!"(({dtdDays n} {dtdHours n} {dtdMinutes n} {dtdSeconds n}) ({durDays n} {durHours n} {durMinutes n} {durSeconds n} {durNanos n}))"
    | none => "(error bad-args)"
  | [.atom "ymd", n] =>
    match Sexp.int? n with
    | some n => s!"(({ymdYears n} {ymdMonths n}) ({Int.tdiv n 12} {Int.tmod n 12}))"
    | none => "(error bad-args)"
  | [.atom "prop", x, ox] =>
    match dt? x, oracle? ox with
    | some x, some ox =>
      let off := optStr (fun (n : Int) => toString n) (timeOffsetOf x ox)
      let tz := match timeZoneOf x with
        | some n => toString (Sexp.ofChars n)
        | none => "none"
      s!"({x.date.y} {x.date.m} {x.date.d} {x.time.h} {x.time.mi} {x.time.s} {off} {tz})"
    | _, _ => "(error bad-args)"
  | [.atom "dtprops", x, ox] =>
    match dt? x, oracle? ox with
    | some x, some ox =>
      let pv : PropVal → String := fun v => match v with
        | .num n => toString n
        | .offset secs => toString secs
        | .str n => toString (Sexp.ofChars n)
        | .null => "none"
        | .panic => "panic"
      let names : List PropName := [.year, .month, .day, .weekday, .hour, .minute, .second, .timeOffset, .timezone]
      let m := " ".intercalate (names.map (fun n => pv (dtProperty x ox n)))
      -- specification: the written (local) components, the calendar for the weekday and the
      -- calendar built-ins; the offset of a named zone is the oracle's
      let z := daysFromCivil x.date.y x.date.m x.date.d
      let wk := isoWeekOfDay z
      let off := match x.time.z with
        | .utc => "0"
        | .localZ => "none"
        | .offset n => toString n
        | .zone _ => optStr (fun (n : Int) => toString n) ox
      let tz := match x.time.z with
        | .zone n => toString (Sexp.ofChars n)
        | _ => "none"
      s!"(({m}) ({x.date.y} {x.date.m} {x.date.d} {Cal.weekday z} {x.time.h} {x.time.mi} {x.time.s} {off} {tz}) ({dayOfYear x.date.y x.date.m x.date.d} {wk.2} {wk.1} {(zeller x.date.y x.date.m x.date.d + 5) % 7 + 1}))"
    | _, _ => "(error bad-args)"
  | [.atom "durops", .atom kind, x, y] =>
    match Sexp.int? x, Sexp.int? y with
    | some x, some y =>
      let o := optStr (fun (n : Int) => toString n)
      let sp := s!"({x + y} {-x} {x - y} {b (decide (x = y))} {b (decide (x < y))})"
      if kind == "dtd" then
        s!"(({o (feelAddDtd x y)} {o (feelNegDtd x)} {o (feelSubDtd x y)} {b (decide (x = y))} {b (decide (x < y))}) {sp})"
      else
        s!"(({o (feelAddYmd x y)} {o (feelNegYmd x)} {o (feelSubYmd x y)} {b (decide (x = y))} {b (decide (x < y))}) {sp})"
    | _, _ => "(error bad-args)"
  | [.atom "localoff", initial, .list trs, .list dts] =>
    match Sexp.int? initial, pairs? trs, dts.mapM dt? with
    | some i, some t, some ds =>
      let z : ZoneRules := ⟨i, t⟩
      let o := optStr (fun (n : Int) => toString n)
      let one (x : DateTime) : String :=
        s!"({o (oracleByRules z x)} {o (localOffsetReadAsUtc z x.date x.time.h x.time.mi x.time.s x.time.ns)})"
      "(" ++ " ".intercalate (ds.map one) ++ ")"
    | _, _, _ => "(error bad-args)"
  | [.atom "conv", v, w] =>
    match value? v, value? w with
    | some v, some w =>
      let dateOf? : Value → Option Date := fun x => match x with
        | .date d => some d
        | .dateTime dt => some dt.date
        | _ => none
      let sp := match dateOf? v, dateOf? w with
        | some f, some t => s!"(ymd {wholeMonths f.y f.m f.d t.y t.m t.d})"
        | _, _ => "null"
      s!"(({valueStr (bifDateOf v)} {valueStr (bifTimeOf v)} {valueStr (bifDateTimeOf v w)} {valueStr (bifYmDuration v w)}) {sp})"
    | _, _ => "(error bad-args)"
  | [.atom "arith", v, w, ov, ow] =>
    match value? v, value? w, oracle? ov, oracle? ow with
    | some v, some w, some ov, some ow =>
      s!"({valueStr (feelAdd v w)} {valueStr (feelAdd w v)} {valueStr (feelSub v w ov ow)} {valueStr (feelSub w v ow ov)})"
    | _, _, _, _ => "(error bad-args)"
  | _ => "(error bad-request)"

end Dmn.Driver.C15
