import Dmn.Model.Sexp

/-! Driver handler for C15 — not implemented yet. -/

namespace Dmn.Driver.C15
open Dmn

def handle (_args : List Sexp) : String := "(error not-implemented)"

end Dmn.Driver.C15
