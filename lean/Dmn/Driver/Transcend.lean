import Dmn.Model.Transcend

/-! The enclosures of `ln` and `exp` used by the judges `judgeln` / `judgeexp` live in
`Dmn/Model/Transcend.lean` (namespace `Dmn.Transcend`); what is proved about them is in
`Dmn/Lemmas/Transcend.lean` and `Dmn/Props/C02.lean`.  This file stays so that the driver's imports do not change. -/
