import Dmn.Model.Sexp
import Dmn.Model.Json
import Dmn.Model.ServerModel
import Dmn.Model.Dto
import Dmn.Model.DtoJson

/-!
Driver handler for C18.

* `(c18 jsonify <jv>)` → `((text (s …)) (decoded <json>|none) (expected <json>) (numsok b))`
* `(c18 decode (s …))` → `<json>` | `none`
* `(c18 serve <req>…)` → `((model <resp>…))` — the answers of the handler model, each
  `(<kind> (s body…) <json> <decodes?>)`.

* `(c18 wire <json> (<kind> (s text) (s canonical)|none)…)` → `((read ok|invalidType|(missingField (s …))|(duplicateField (s …)))
  (back <tv>|none) (answer <json>|none) (body (s …)|none))`: a `ValueDto` document as a client writes it, through the
  model of the derived `Deserialize` (`Dto.readValue`), the conversion (`fromDto`) and back (`toOutput`, `tckBody`).
* `(c18 render <json>)` → `((text (s …)) (decoded <json>|none))`: `serde_json`'s compact writer.
* `(c18 dto <tv> (<kind> (s text) (s canonical)|none)…)` → `((dto <json>) (back <tv>|none) (backdto <json>|none) (canonical b))`:
  the DTO of a typed value as `serde_json` writes it, and what reading it back gives; the
  table lists what the text readers answer (computed by the harness in-process).

`<tv>` = `(null)` `(b true)` `(str (s …))` `(k <kind> (s …))` `(l <tv>…)` `(c ((s …) <tv>)…)`;
`<jv>` = `(null)` `(b true)` `(n (s …))` `(str (s …))` `(l <jv>…)` `(c ((s …) <jv>)…)` `(o (s …))`;
`<json>` = `null` `(b true)` `(n (s …))` `(str (s …))` `(arr …)` `(obj ((s …) <json>)…)`.
`<req>` = `(add <content>)` `(replace <content>)` `(remove <ns?> <name?>)` `clear` `deploy`
`(eval <model> <invocable> ok|bad <jv>)`, `(tck <model?> <invocable?> none|bad)`,
`(tck <model?> <invocable?> (ok <tv> echo|<tv>) (<kind> (s text) (s canonical)|none)…)` (a TCK request whose one input
node `x` carries the DTO of `<tv>`; the rows are what the text readers answer; the deployed invocable answers the
value read for `x` (`echo`) or the given value) with `<content>` = `none` | `b64` | `utf8` | `xml` |
`(m ns name builds)` and `<ns?>` = `none` | atom | `(s …)` (names with white space are sent as `(s …)`).
-/

namespace Dmn.Driver.C18
open Dmn Dmn.Json Dmn.Server Dmn.WS

partial def jvOf : Sexp → Option JV
  | .list [.atom "null"] => some .null
  | .list [.atom "b", b] => (Sexp.bool? b).map JV.bool
  | .list [.atom "n", t] => (Sexp.chars? t).map JV.num
  | .list [.atom "nf"] => some .nonFinite
  | .list [.atom "str", t] => (Sexp.chars? t).map JV.str
  | .list [.atom "o", t] => (Sexp.chars? t).map JV.other
  | .list (.atom "l" :: xs) => (xs.mapM jvOf).map JV.list
  | .list (.atom "c" :: es) =>
    (es.mapM (fun (e : Sexp) => match e with
      | .list [k, v] => do
        let k ← Sexp.chars? k
        let v ← jvOf v
        pure (k, v)
      | _ => none)).map JV.ctx
  | _ => none

partial def jsonSexp : Json → Sexp
  | .null => .atom "null"
  | .bool b => .list [.atom "b", Sexp.ofBool b]
  | .num t => .list [.atom "n", Sexp.ofChars t]
  | .str s => .list [.atom "str", Sexp.ofChars s]
  | .arr xs => .list (.atom "arr" :: xs.map jsonSexp)
  | .obj ms => .list (.atom "obj" :: ms.map (fun (k, v) => .list [Sexp.ofChars k, jsonSexp v]))

def optJson : Option Json → Sexp
  | some j => jsonSexp j
  | none => .atom "none"

/-- The symbolic codec of the driver: the content parameter is the tag the harness sent. -/
def codec : Codec where
  base64 := fun t => if t == ['b', '6', '4'] then none else some (t.map Char.toNat)
  utf8 := fun bs => if bs == ['u', 't', 'f', '8'].map Char.toNat then none else some (bs.map Char.ofNat)
  parse := fun xml =>
    match (String.ofList xml).splitOn "\n" with
    | ["m", ns, name, b] => .ok ⟨ns, name, b == "true"⟩
    | _ => .error "xml".toList

/-- a namespace / model name: an atom, or `(s …)` when it has white space or other characters an atom cannot carry -/
def nameOf : Sexp → Option String
  | .atom a => some a
  | x => Sexp.str? x

def contentOf : Sexp → Option (Option (List Char))
  | .atom "none" => some none
  | .atom "b64" => some (some ['b', '6', '4'])
  | .atom "utf8" => some (some ['u', 't', 'f', '8'])
  | .atom "xml" => some (some ['x', 'm', 'l'])
  | .list [.atom "m", ns, name, .atom b] => do
    let ns ← nameOf ns
    let name ← nameOf name
    pure (some ("\n".intercalate ["m", ns, name, b]).toList)
  | _ => none

def optAtom : Sexp → Option (Option String)
  | .atom "none" => some none
  | .atom a => some (some a)
  | x => (Sexp.str? x).map some

/-! ### DTOs -/

open Dmn.Dto in
def kindOf : String → Option Kind
  | "number" => some .number
  | "date" => some .date
  | "time" => some .time
  | "dateTime" => some .dateTime
  | "ymDuration" => some .ymDuration
  | "dtDuration" => some .dtDuration
  | _ => none

open Dmn.Dto in
partial def tvOf : Sexp → Option TV
  | .list [.atom "null"] => some .null
  | .list [.atom "b", b] => (Sexp.bool? b).map TV.bool
  | .list [.atom "str", t] => (Sexp.chars? t).map TV.str
  | .list [.atom "k", .atom k, t] => do
    let k ← kindOf k
    let t ← Sexp.chars? t
    pure (TV.scalar k t)
  | .list (.atom "l" :: xs) => (xs.mapM tvOf).map TV.list
  | .list [.atom "o", t] => (Sexp.chars? t).map TV.other
  | .list (.atom "c" :: es) =>
    (es.mapM (fun (e : Sexp) => match e with
      | .list [k, v] => do
        let k ← Sexp.chars? k
        let v ← tvOf v
        pure (k, v)
      | _ => none)).map TV.ctx
  | _ => none

open Dmn.Dto in
def kindName : Kind → String
  | .number => "number" | .date => "date" | .time => "time" | .dateTime => "dateTime"
  | .ymDuration => "ymDuration" | .dtDuration => "dtDuration"

open Dmn.Dto in
partial def tvSexp : TV → Sexp
  | .null => .list [.atom "null"]
  | .bool b => .list [.atom "b", Sexp.ofBool b]
  | .str s => .list [.atom "str", Sexp.ofChars s]
  | .scalar k t => .list [.atom "k", .atom (kindName k), Sexp.ofChars t]
  | .list xs => .list (.atom "l" :: xs.map tvSexp)
  | .ctx es => .list (.atom "c" :: es.map (fun (k, v) => .list [Sexp.ofChars k, tvSexp v]))
  | .other d => .list [.atom "o", Sexp.ofChars d]

/-- the readers as the harness observed them: `(kind text canonical?)` rows -/
def lookup (table : List (String × List Char × Option (List Char))) (kind : String) (t : List Char) : Option (List Char) :=
  match table.find? (fun r => r.1 == kind && r.2.1 == t) with
  | some r => r.2.2
  | none => none

open Dmn.Dto in
def readersOf (table : List (String × List Char × Option (List Char))) : Readers where
  number := lookup table "number"
  date := lookup table "date"
  time := lookup table "time"
  dateTime := lookup table "dateTime"
  ymDuration := lookup table "ymDuration"
  dtDuration := lookup table "dtDuration"
  name := lookup table "name"

def rowOf : Sexp → Option (String × List Char × Option (List Char))
  | .list [.atom k, t, .atom "none"] => (Sexp.chars? t).map (fun t => (k, t, none))
  | .list [.atom k, t, c] => do
    let t ← Sexp.chars? t
    let c ← Sexp.chars? c
    pure (k, t, some c)
  | _ => none

/-- `ValueDto` as `serde_json` writes it: the model's `Dto.json` (`Dmn/Model/DtoJson.lean`). -/
def dtoJson (d : Dmn.Dto.Dto) : Json := d.json

partial def jsonOf : Sexp → Option Json
  | .atom "null" => some .null
  | .list [.atom "b", b] => (Sexp.bool? b).map Json.bool
  | .list [.atom "n", t] => (Sexp.chars? t).map Json.num
  | .list [.atom "str", t] => (Sexp.chars? t).map Json.str
  | .list (.atom "arr" :: xs) => (xs.mapM jsonOf).map Json.arr
  | .list (.atom "obj" :: ms) =>
    (ms.mapM (fun (e : Sexp) => match e with
      | .list [k, v] => do
        let k ← Sexp.chars? k
        let v ← jsonOf v
        pure (k, v)
      | _ => none)).map Json.obj
  | _ => none

/-- The evaluator oracle of the driver: the request carries the value a deployed model
answers (computed by the harness from the alphabet: literal decision, echo decision,
unknown invocable). -/
def reqOf : Sexp → Option (Request (Sum JV Dmn.Dto.TV))
  | .atom "clear" => some .clear
  | .atom "deploy" => some .deploy
  | .list [.atom "add", c] => (contentOf c).map .add
  | .list [.atom "replace", c] => (contentOf c).map .replace
  | .list [.atom "remove", ns, name] => do
    let ns ← optAtom ns
    let name ← optAtom name
    pure (.remove ns name)
  | .list [.atom "eval", m, i, .atom ok, v] => do
    let m ← optAtom m
    let i ← optAtom i
    let v ← jvOf v
    pure (.evaluate m i (if ok == "ok" then .ok (.inl v) else .error "input".toList))
  | .list [.atom "tck", m, i, .atom x] => do
    let m ← optAtom m
    let i ← optAtom i
    pure (.tck m i (if x == "none" then none else some (.error "input".toList)))
  | .list (.atom "tck" :: m :: i :: .list [.atom "ok", v, ans] :: rows) => do
    let m ← optAtom m
    let i ← optAtom i
    let v ← tvOf v
    let table ← rows.mapM rowOf
    -- `WrappedValue::try_from(input_values)` on the one input node `x`
    match Dmn.Dto.inputContext (readersOf table) [(['x'], some (Dmn.Dto.toDto v))] with
    | some (.ctx [(_, read)]) =>
      match ans with
      | .atom "echo" => pure (.tck m i (some (.ok (.inr read))))
      | a => do
        let a ← tvOf a
        pure (.tck m i (some (.ok (.inr a))))
    | _ => pure (.tck m i (some (.error "input".toList)))
  | _ => none

def errKind : Err → String
  | .missingParameter _ => "missingParameter"
  | .invalidBase64 => "invalidBase64"
  | .invalidUtf8 => "invalidUtf8"
  | .parse _ => "parse"
  | .namespaceExists _ => "namespaceExists"
  | .nameExists _ => "nameExists"
  | .notDeployed _ => "notDeployed"
  | .input _ => "input"

def respSexp (r : Resp) : Sexp :=
  let kind : Sexp := match r with
    | .added _ _ => .atom "added"
    | .status _ => .atom "status"
    | .value _ => .atom "value"
    | .tck _ => .atom "tck"
    | .error e => .list [.atom "error", .atom (errKind e)]
  let wf := match Json.decode r.body with
    | some _ => true
    | none => false
  .list [kind, Sexp.ofChars r.body, optJson (some r.json), Sexp.ofBool wf]

def handleDto (v : Sexp) (rows : List Sexp) : String :=
  match tvOf v, rows.mapM rowOf with
  | some v, some table =>
    let rd := readersOf table
    let d := Dmn.Dto.toDto v
    let back := match Dmn.Dto.fromDto rd d with
      | some b => tvSexp b
      | none => .atom "none"
    -- what the service answers: the DTO of the value it read
    let backDto := match Dmn.Dto.fromDto rd d with
      | some b => jsonSexp (dtoJson (Dmn.Dto.toDto b))
      | none => .atom "none"
    toString (Sexp.list [.list [.atom "dto", jsonSexp (dtoJson d)], .list [.atom "back", back],
      .list [.atom "backdto", backDto],
      .list [.atom "canonical", Sexp.ofBool (Dmn.Dto.canonical rd v)]])
  | _, _ => "(error bad-dto)"

def deErrSexp : Dmn.Dto.DeErr → Sexp
  | .invalidType => .atom "invalidType"
  | .missingField f => .list [.atom "missingField", Sexp.ofChars f]
  | .duplicateField f => .list [.atom "duplicateField", Sexp.ofChars f]

def handleWire (j : Sexp) (rows : List Sexp) : String :=
  match jsonOf j, rows.mapM rowOf with
  | some j, some table =>
    let rd := readersOf table
    match Dmn.Dto.readValue j with
    | .error e => toString (Sexp.list [.list [.atom "read", deErrSexp e], .list [.atom "back", .atom "none"],
        .list [.atom "answer", .atom "none"], .list [.atom "body", .atom "none"]])
    | .ok d =>
      match Dmn.Dto.fromDto rd d with
      | none => toString (Sexp.list [.list [.atom "read", .atom "ok"], .list [.atom "back", .atom "none"],
          .list [.atom "answer", .atom "none"], .list [.atom "body", .atom "none"]])
      | some v =>
        let o := Dmn.Dto.toOutput v
        toString (Sexp.list [.list [.atom "read", .atom "ok"], .list [.atom "back", tvSexp v],
          .list [.atom "answer", jsonSexp (Dmn.Dto.tckJson o)], .list [.atom "body", Sexp.ofChars (Dmn.Dto.tckBody o)]])
  | _, _ => "(error bad-wire)"

def handle (args : List Sexp) : String :=
  match args with
  | .atom "dto" :: v :: rows => handleDto v rows
  | .atom "wire" :: j :: rows => handleWire j rows
  | [.atom "render", j] =>
    match jsonOf j with
    | none => "(error bad-json)"
    | some j =>
      let text := Json.render j
      toString (Sexp.list [.list [.atom "text", Sexp.ofChars text], .list [.atom "decoded", optJson (Json.decode text)]])
  | [.atom "jsonify", v] =>
    match jvOf v with
    | none => "(error bad-value)"
    | some v =>
      let text := jsonify v
      toString (Sexp.list [
        .list [.atom "text", Sexp.ofChars text],
        .list [.atom "decoded", optJson (Json.decode text)],
        .list [.atom "expected", jsonSexp (toJson v)],
        .list [.atom "numsok", Sexp.ofBool (numbersOk v)]])
  | [.atom "decode", t] =>
    match Sexp.chars? t with
    | none => "(error bad-text)"
    | some cs => toString (optJson (Json.decode cs))
  | .atom "serve" :: reqs =>
    match reqs.mapM reqOf with
    | none => "(error bad-request)"
    | some reqs =>
      let ev : Evals (Sum JV Dmn.Dto.TV) :=
        ⟨fun _ _ v => match v with | .inl v => v | .inr _ => .null,
         fun _ _ v => match v with | .inr t => .ok (Dmn.Dto.toOutput t) | .inl _ => .ok none⟩
      let m := (Server.serve codec ev WS.init reqs).2
      toString (Sexp.list [.list (.atom "model" :: m.map respSexp)])
  | _ => "(error bad-request)"

end Dmn.Driver.C18
