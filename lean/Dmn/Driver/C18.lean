import Dmn.Model.Sexp

/-! Driver handler for C18 — not implemented yet. -/

namespace Dmn.Driver.C18
open Dmn

def handle (_args : List Sexp) : String := "(error not-implemented)"

end Dmn.Driver.C18
