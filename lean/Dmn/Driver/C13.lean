import Dmn.Model.Sexp

/-! Driver handler for C13 — not implemented yet. -/

namespace Dmn.Driver.C13
open Dmn

def handle (_args : List Sexp) : String := "(error not-implemented)"

end Dmn.Driver.C13
