import Dmn.Model.Sexp
import Dmn.Model.XmlBuild

/-!
Driver handler for the XML layer of C12.

* `(c12 parse <uri-table> <tree>)` — `Dmn.Xml.parse` on the tree; answer `(ok <summary>)`,
  `(err <kind> <string>…)` or `(panic)`.
* `(c12 parse-dt <uri-table> <tree>)` — parse, take the first decision table of the definitions,
  build its shape with every cell parsing: `ok` | `error` | `(panic <site>)` | `parse-error` | `no-table`.
* `(c12 parse-graph <uri-table> <tree>)` — parse, `toDefs`, then the answers of `(c12 graph …)` without
  identifiers: `(<build> (<res>…) (<res>…) (<res>…))`.

tree  = `(e <name> (<attr>…) <tree>…)` | `(t <string>)` | `(c <string>)` | `(p)`;
attr  = `(<0|1 has-namespace> <name> <value>)`; strings are `(s <code point>…)`;
uri-table = `((<string> <outcome>)…)` with outcome = `(ok <0|1 relative> <string>)` | `err` | `panic`:
what `uriparse::URIReference::try_from` answered for every `href` value of the tree (a value that
is not in the table counts as `err`).
-/

namespace Dmn.Driver.C12Xml
open Dmn Dmn.Xml

def strOf : Sexp → Option Str
  | .list (.atom "s" :: cs) => cs.mapM Sexp.nat?
  | _ => none

partial def nodeOf : Sexp → Option XNode
  | .list (.atom "e" :: name :: .list attrs :: children) => do
    let name ← strOf name
    let attrs ← attrs.mapM (fun (a : Sexp) => match a with
      | .list [ns, n, v] => do
        let ns ← Sexp.nat? ns
        let n ← strOf n
        let v ← strOf v
        pure (⟨ns != 0, n, v⟩ : XAttr)
      | _ => none)
    let children ← children.mapM nodeOf
    pure (.elem name attrs children)
  | .list [.atom "t", s] => (strOf s).map XNode.text
  | .list [.atom "c", s] => (strOf s).map XNode.comment
  | .list [.atom "p"] => some .pi
  | _ => none

def uriOutOf : Sexp → Option UriOut
  | .atom "err" => some .err
  | .atom "panic" => some .panic
  | .list [.atom "ok", r, s] => do
    let r ← Sexp.nat? r
    let s ← strOf s
    pure (.ok (r != 0) s)
  | _ => none

def uriTableOf : Sexp → Option (List (Str × UriOut))
  | .list es => es.mapM (fun (e : Sexp) => match e with
    | .list [k, v] => do
      let k ← strOf k
      let v ← uriOutOf v
      pure (k, v)
    | _ => none)
  | _ => none

def uriFn (table : List (Str × UriOut)) (s : Str) : UriOut :=
  match table.find? (fun e => e.1 == s) with
  | some e => e.2
  | none => .err

/-! ### Canonical summary (the same text is produced by `harness/src/c12xml.rs`) -/

def pStr (s : Str) : String := "(s" ++ String.join (s.map (fun c => " " ++ toString c)) ++ ")"
def pOpt : Option Str → String
  | none => "-"
  | some s => pStr s
def pBool (b : Bool) : String := if b then "true" else "false"
def pList (tag : String) (xs : List String) : String :=
  "(" ++ tag ++ String.join (xs.map (fun x => " " ++ x)) ++ ")"

def pLiteral (l : Literal) : String :=
  pList "lit" [pOpt l.id, pOpt l.description, pOpt l.label, pOpt l.typeRef, pOpt l.text, pOpt l.expressionLanguage]

def pAgg : Agg → String
  | .list => "list" | .count => "count" | .sum => "sum" | .min => "min" | .max => "max"

def pHit : HitPolicy → String
  | .unique => "unique" | .any => "any" | .priority => "priority" | .first => "first"
  | .ruleOrder => "rule-order" | .outputOrder => "output-order"
  | .collect a => "collect-" ++ pAgg a

def pOrientation : Orientation → String
  | .ruleAsRow => "rule-as-row" | .ruleAsColumn => "rule-as-column" | .crossTable => "cross-table"

def pTable (t : DTable) : String :=
  pList "dt" [
    pList "ins" (t.inputs.map (fun c => pList "in" [pStr c.inputExpression, pOpt c.inputValues])),
    pList "outs" (t.outputs.map (fun c => pList "out" [pOpt c.typeRef, pOpt c.name, pOpt c.outputValues, pOpt c.defaultOutputEntry])),
    pList "rules" (t.rules.map (fun r => pList "rule" [pList "i" (r.inputEntries.map pStr), pList "o" (r.outputEntries.map pStr)])),
    pHit t.hitPolicy, pOrientation t.orientation, pOpt t.outputLabel]

def pKind : FunKind → String
  | .feel => "feel" | .java => "java" | .pmml => "pmml"

mutual
partial def pExpr : Expr → String
  | .context es => pList "context" (es.map (fun e => match e with
    | .mk v x => pList "ce" [match v with | some i => pInfo i | none => "-", pExpr x]))
  | .table t => pTable t
  | .fundef f => pFunDef f
  | .invocation c bs => pList "inv" (pExpr c :: bs.map (fun b => match b with
    | .mk p f => pList "b" [pInfo p, pOptExpr f]))
  | .literal l => pLiteral l
  | .relation id d l t rows cols =>
    pList "rel" [pOpt id, pOpt d, pOpt l, pOpt t,
      pList "rows" (rows.map (fun r => pList "row" ([pOpt r.id, pOpt r.description, pOpt r.label, pOpt r.typeRef] ++ r.elements.map pLiteral))),
      pList "cols" (cols.map pInfo)]
partial def pOptExpr : Option Expr → String
  | none => "-"
  | some e => pExpr e
partial def pInfo : InfoItem → String
  | .mk id d l name v t => pList "ii" [pOpt id, pOpt d, pOpt l, pStr name, pOptExpr v, pOpt t]
partial def pFunDef : FunDef → String
  | .mk id d l t ps b k => pList "fd" [pOpt id, pOpt d, pOpt l, pOpt t, pList "params" (ps.map pInfo), pOptExpr b, pKind k]
end

partial def pItem : ItemDef → String
  | .mk name id d l typeRef typeLanguage allowed comps coll fi =>
    pList "item" [pStr name, pOpt id, pOpt d, pOpt l, pOpt typeRef, pOpt typeLanguage,
      match allowed with
      | none => "-"
      | some u => pList "ut" [pOpt u.text, pOpt u.expressionLanguage],
      pList "comps" (comps.map pItem), pBool coll,
      match fi with
      | none => "-"
      | some o => pList "fi" [pOpt o]]

def pKnowReqs (rs : List KnowReq) : String :=
  pList "kr" (rs.map (fun r => pList "r" [pOpt r.id, pOpt r.description, pOpt r.label, pOpt r.requiredKnowledge]))

def pDrg : Drg → String
  | .inputData x => pList "input" [pOpt x.id, pOpt x.description, pOpt x.label, pStr x.name, pInfo x.var]
  | .decision x => pList "decision" [pStr x.name, pOpt x.id, pOpt x.description, pOpt x.label, pOpt x.question,
      pOpt x.allowedAnswers, pInfo x.var, pOptExpr x.logic,
      pList "ir" (x.infoReqs.map (fun r => pList "r" [pOpt r.id, pOpt r.description, pOpt r.label, pOpt r.requiredDecision, pOpt r.requiredInput])),
      pKnowReqs x.knowReqs]
  | .bkm x => pList "bkm" [pStr x.name, pOpt x.id, pOpt x.description, pOpt x.label, pInfo x.var,
      match x.logic with
      | some f => pFunDef f
      | none => "-",
      pKnowReqs x.knowReqs]
  | .service x => pList "service" [pStr x.name, pOpt x.id, pOpt x.description, pOpt x.label, pInfo x.var,
      pList "h" (x.outputDecisions.map pStr), pList "h" (x.encapsulatedDecisions.map pStr),
      pList "h" (x.inputDecisions.map pStr), pList "h" (x.inputData.map pStr)]
  | .knowledgeSource x => pList "ks" [pOpt x.id, pOpt x.description, pOpt x.label, pStr x.name]

def pColor : Option Color → String
  | none => "-"
  | some c => pList "rgb" [toString c.red, toString c.green, toString c.blue]

def pAlign : Option Align → String
  | none => "-" | some .start => "start" | some .end_ => "end" | some .center => "center"

def pStyle (s : Style) : String :=
  pList "style" [pOpt s.id, pColor s.fillColor, pColor s.strokeColor, pColor s.fontColor, pStr s.fontFamily,
    pBool s.fontItalic, pBool s.fontBold, pBool s.fontUnderline, pBool s.fontStrikeThrough,
    pAlign s.hAlign, pAlign s.vAlign]

def pOptStyle : Option Style → String
  | none => "-"
  | some s => pStyle s

def pLabel : Option DLabel → String
  | none => "-"
  | some l => pList "label" [pBool l.hasBounds, pOpt l.text, pOpt l.sharedStyle]

def pElem : DiagElem → String
  | .shape id ref divider collapsed shared loc label =>
    pList "shape" [pOpt id, pOpt ref,
      match divider with
      | none => "-"
      | some d => pList "div" [pOpt d.id, toString d.wayPoints, pOpt d.sharedStyle, pOptStyle d.localStyle],
      pBool collapsed, pOpt shared, pOptStyle loc, pLabel label]
  | .edge id n ref shared loc label =>
    pList "edge" [pOpt id, toString n, pOpt ref, pOpt shared, pOptStyle loc, pLabel label]

def pDmndi : Option Dmndi → String
  | none => "-"
  | some d => pList "dmndi" [pList "styles" (d.styles.map pStyle),
      pList "diagrams" (d.diagrams.map (fun g => pList "diagram" [pOpt g.id, pStr g.name,
        pList "elems" (g.elements.map pElem), pOpt g.sharedStyle, pOptStyle g.localStyle, pBool g.hasSize]))]

def pDefinitions (d : Definitions) : String :=
  pList "defs" [pStr d.name, pOpt d.id, pOpt d.description, pOpt d.label, pStr d.namespaceUri,
    pOpt d.expressionLanguage, pOpt d.typeLanguage, pOpt d.exporter, pOpt d.exporterVersion,
    pList "items" (d.itemDefinitions.map pItem), pList "drg" (d.drgElements.map pDrg),
    pList "imports" (d.imports.map (fun i => pList "import" [pOpt i.id, pOpt i.description, pOpt i.label,
      pStr i.name, pStr i.importType, pOpt i.locationUri, pStr i.namespaceUri])),
    pDmndi d.dmndi]

def pErr : PErr → String
  | .invalidFunctionKind => "(err invalid-function-kind)"
  | .invalidHitPolicy => "(err invalid-hit-policy)"
  | .invalidAggregation => "(err invalid-aggregation)"
  | .invalidColorValue => "(err invalid-color-value)"
  | .invalidDoubleValue => "(err invalid-double-value)"
  | .requiredInputExpressionIsMissing => "(err required-input-expression-is-missing)"
  | .requiredChildNodeIsMissing p c => pList "err" ["required-child-node-is-missing", pStr p, pStr c]
  | .requiredExpressionInstanceIsMissing => "(err required-expression-instance-is-missing)"
  | .numberOfElementsInRowDiffersFromNumberOfColumns => "(err row-size)"
  | .xmlUnexpectedNode a => pList "err" ["unexpected-node", pStr a]
  | .xmlExpectedMandatoryAttribute n a => pList "err" ["mandatory-attribute", pStr n, pStr a]
  | .xmlExpectedMandatoryChildNode n c => pList "err" ["mandatory-child", pStr n, pStr c]
  | .xmlExpectedMandatoryTextContent n => pList "err" ["mandatory-text", pStr n]
  | .invalidDecisionTableOrientation => "(err invalid-orientation)"
  | .invalidReference => "(err invalid-reference)"

def site (s : String) : String := (s.splitOn " ").headD ""

def resStr : MB.Res → String
  | .ok => "ok" | .error => "error" | .diverge => "diverge"

def allParse : FeelOracle := ⟨fun _ => true, fun _ => true, fun _ => true⟩

def handle (kind : String) (table tree : Sexp) : String :=
  match uriTableOf table, nodeOf tree with
  | some table, some root =>
    let r := parse (uriFn table) root
    match kind with
    | "parse" =>
      match r with
      | .ok d => "(ok " ++ pDefinitions d ++ ")"
      | .err e => pErr e
      | .panic _ => "(panic)"
    | "parse-dt" =>
      match r with
      | .ok d =>
        match d.tables with
        | t :: _ =>
          match MB.buildTable (toTableS allParse t) with
          | .ok _ => "ok"
          | .error _ => "error"
          | .panic s => s!"(panic {site s})"
        | [] => "no-table"
      | _ => "parse-error"
    | "parse-graph" =>
      match r with
      | .ok d =>
        match toDefs d with
        | none => "(error () () ())"
        | some g =>
          let fuel := 64
          let ds := g.decisions.map (fun x => resStr (MB.evalDecision g fuel x.id))
          let bs := g.bkms.map (fun x => resStr (MB.evalBkm g fuel x.id))
          let ss := g.services.map (fun x => resStr (MB.evalService g fuel x.id))
          s!"({resStr (MB.build g fuel)} ({" ".intercalate ds}) ({" ".intercalate bs}) ({" ".intercalate ss}))"
      | _ => "parse-error"
    | _ => "(error bad-request)"
  | _, _ => "(error bad-argument)"

end Dmn.Driver.C12Xml
