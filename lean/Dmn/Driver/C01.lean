import Dmn.Model.Sexp
import Dmn.Model.Eval
import Dmn.Driver.Codec
import Dmn.Model.NumD128
import Dmn.Gen.BifNames
import Dmn.Model.EvalNames

/-! Driver handler for C01 / C13: `(c01 eval <fuel> <ast> (<ctx>…))` — the scope is the list of
its contexts, bottom first.

* `(c01 evalin <fuel> <ast> (<ctx>…) ((<i> <name> <ast>)…))` — the same, after binding in context
  `i` of the scope each `name` to the value its `ast` has in the empty scope (function values: the
  wire format of a value does not carry a function body, so a scope that binds a function value is
  built on this side from the definition's syntax tree).
* `(c01 namesin <ast> (<name>…))` — `Eval.namesIn` of the tree for the set of the listed names: does the
  tree look up only names of the list?  `(c01 namesout <ast> (<name>…))` — for the complement: does the tree
  look up none of the listed names?
* `(c01 bifnames)` — the names `Bif::from_str` accepts (regenerated table `Dmn.Gen.bifNames`). -/

namespace Dmn.Driver.C01
open Dmn Dmn.Codec

def bifPosStub (_ : String) (_ : List Value) : Outcome Value := .ok Value.unsupported
def bifNamedStub (_ : String) (_ : List (String × Value × Nat)) : Outcome Value := .ok Value.unsupported

partial def hasUnsupported : Value → Bool
  | .bif "«unsupported»" => true
  | .list vs => vs.any hasUnsupported
  | .ctx es => es.any (fun e => hasUnsupported e.2)
  | .range lo _ hi _ => hasUnsupported lo || hasUnsupported hi
  | .unaryLt v | .unaryLe v | .unaryGt v | .unaryGe v => hasUnsupported v
  | .exprList vs | .negList vs => vs.any hasUnsupported
  | _ => false

def ctxOfSexp (x : Sexp) : Option Ctx :=
  match valueOfSexp x with
  | some (.ctx es) => some es
  | _ => none

def scopeStr (s : Scope) : String :=
  toString (Sexp.list (s.map (fun c => sexpOfValue (.ctx c))))

def render (s : Scope) (o : Outcome (Value × Scope)) : String :=
  match o with
  | .ok (v, s') =>
    if hasUnsupported v then "(unsupported)"
    else
      let same := if scopeStr s' == scopeStr s then "same" else "changed"
      s!"(ok {sexpOfValue v} {same})"
  | .panic site => s!"(panic {Sexp.ofStr site})"
  | .diverge => "(diverge)"

/-- answer: `(<model> <spec>)` -/
def runEval (fuel : Nat) (a : Ast) (s : Scope) : String :=
  if !Eval.buildOk a then "((builderror) (builderror))"
  else
    let m := render s (Eval.eval NumOps.d128 bifPosStub bifNamedStub fuel a s)
    let d := render s (Eval.den NumOps.d128 bifPosStub bifNamedStub fuel a s)
    if m == d then s!"({m} {d})"
    else
      -- which of the three deviations is responsible (for the signature of a finding)
      let v1 := render s (Eval.evalWith Eval.Variant.declaredOrder NumOps.d128 bifPosStub bifNamedStub fuel a s)
      let v2 := render s (Eval.evalWith Eval.Variant.productOnly NumOps.d128 bifPosStub bifNamedStub fuel a s)
      let v1b := render s (Eval.evalWith Eval.Variant.productOuterWins NumOps.d128 bifPosStub bifNamedStub fuel a s)
      let why := (if m != v1 then "order " else "") ++ (if v1 != v1b then "empty-domain " else "") ++
        (if v1b != v2 then "shadowing " else "") ++ (if v2 != d then "index" else "")
      s!"({m} {d} ({why}))"

def modifyAt (s : Scope) (i : Nat) (f : Ctx → Ctx) : Scope :=
  match s, i with
  | [], _ => []
  | c :: cs, 0 => f c :: cs
  | c :: cs, i + 1 => c :: modifyAt cs i f

/-- the scope with the extra bindings of an `evalin` request -/
def bindIn (fuel : Nat) (s : Scope) : List Sexp → Option Scope
  | [] => some s
  | .list [idx, name, a] :: rest =>
    match Sexp.nat? idx, Sexp.str? name, astOfSexp a with
    | some i, some n, some a =>
      match Eval.eval NumOps.d128 bifPosStub bifNamedStub fuel a [] with
      | .ok (v, _) => bindIn fuel (modifyAt s i (fun c => Ctx.set c n v)) rest
      | _ => none
    | _, _, _ => none
  | _ => none

def handle (args : List Sexp) : String :=
  match args with
  | [.atom "namesin", a, .list names] =>
    match astOfSexp a, names.mapM Sexp.str? with
    | some a, some ns => toString (Sexp.ofBool (Eval.namesIn (fun k => ns.contains k) a))
    | _, _ => "(error bad-args)"
  | [.atom "namesout", a, .list names] =>
    match astOfSexp a, names.mapM Sexp.str? with
    | some a, some ns => toString (Sexp.ofBool (Eval.namesIn (fun k => !ns.contains k) a))
    | _, _ => "(error bad-args)"
  | [.atom "bifnames"] =>
    toString (Sexp.list (Dmn.Gen.bifNames.map (fun p => Sexp.ofStr p.1)))
  | [.atom "evalin", fuel, a, .list ctxs, .list binds] =>
    match Sexp.nat? fuel, astOfSexp a, ctxs.mapM ctxOfSexp with
    | some fuel, some a, some s =>
      match bindIn fuel s binds with
      | some s => runEval fuel a s
      | none => "(error bad-bindings)"
    | _, none, _ => "(error bad-ast)"
    | _, _, _ => "(error bad-args)"
  | [.atom "eval", fuel, a, .list ctxs] =>
    match Sexp.nat? fuel, astOfSexp a, ctxs.mapM ctxOfSexp with
    | some fuel, some a, some s => runEval fuel a s
    | _, none, _ => "(error bad-ast)"
    | _, _, _ => "(error bad-args)"
  | _ => "(error bad-request)"

end Dmn.Driver.C01
