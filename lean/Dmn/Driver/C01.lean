import Dmn.Model.Sexp

/-! Driver handler for C01 — not implemented yet. -/

namespace Dmn.Driver.C01
open Dmn

def handle (_args : List Sexp) : String := "(error not-implemented)"

end Dmn.Driver.C01
