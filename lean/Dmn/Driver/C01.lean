import Dmn.Model.Sexp
import Dmn.Model.Eval
import Dmn.Driver.Codec
import Dmn.Model.NumD128

/-! Driver handler for C01 / C13: `(c01 eval <fuel> <ast> (<ctx>…))` — the scope is the list of
its contexts, bottom first. -/

namespace Dmn.Driver.C01
open Dmn Dmn.Codec

def bifPosStub (_ : String) (_ : List Value) : Outcome Value := .ok Value.unsupported
def bifNamedStub (_ : String) (_ : List (String × Value × Nat)) : Outcome Value := .ok Value.unsupported

partial def hasUnsupported : Value → Bool
  | .bif "«unsupported»" => true
  | .list vs => vs.any hasUnsupported
  | .ctx es => es.any (fun e => hasUnsupported e.2)
  | .range lo _ hi _ => hasUnsupported lo || hasUnsupported hi
  | .unaryLt v | .unaryLe v | .unaryGt v | .unaryGe v => hasUnsupported v
  | .exprList vs | .negList vs => vs.any hasUnsupported
  | _ => false

def ctxOfSexp (x : Sexp) : Option Ctx :=
  match valueOfSexp x with
  | some (.ctx es) => some es
  | _ => none

def scopeStr (s : Scope) : String :=
  toString (Sexp.list (s.map (fun c => sexpOfValue (.ctx c))))

def render (s : Scope) (o : Outcome (Value × Scope)) : String :=
  match o with
  | .ok (v, s') =>
    if hasUnsupported v then "(unsupported)"
    else
      let same := if scopeStr s' == scopeStr s then "same" else "changed"
      s!"(ok {sexpOfValue v} {same})"
  | .panic site => s!"(panic {Sexp.ofStr site})"
  | .diverge => "(diverge)"

/-- answer: `(<model> <spec>)` -/
def runEval (fuel : Nat) (a : Ast) (s : Scope) : String :=
  if !Eval.buildOk a then "((builderror) (builderror))"
  else
    let m := render s (Eval.eval NumOps.d128 bifPosStub bifNamedStub fuel a s)
    let d := render s (Eval.den NumOps.d128 bifPosStub bifNamedStub fuel a s)
    if m == d then s!"({m} {d})"
    else
      -- which of the three deviations is responsible (for the signature of a finding)
      let v1 := render s (Eval.evalWith Eval.Variant.declaredOrder NumOps.d128 bifPosStub bifNamedStub fuel a s)
      let v2 := render s (Eval.evalWith Eval.Variant.productOnly NumOps.d128 bifPosStub bifNamedStub fuel a s)
      let v1b := render s (Eval.evalWith Eval.Variant.productOuterWins NumOps.d128 bifPosStub bifNamedStub fuel a s)
      let why := (if m != v1 then "order " else "") ++ (if v1 != v1b then "empty-domain " else "") ++
        (if v1b != v2 then "shadowing " else "") ++ (if v2 != d then "index" else "")
      s!"({m} {d} ({why}))"

def handle (args : List Sexp) : String :=
  match args with
  | [.atom "eval", fuel, a, .list ctxs] =>
    match Sexp.nat? fuel, astOfSexp a, ctxs.mapM ctxOfSexp with
    | some fuel, some a, some s => runEval fuel a s
    | _, none, _ => "(error bad-ast)"
    | _, _, _ => "(error bad-args)"
  | _ => "(error bad-request)"

end Dmn.Driver.C01
