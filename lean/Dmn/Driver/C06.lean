import Dmn.Model.Sexp

/-! Driver handler for C06 — not implemented yet. -/

namespace Dmn.Driver.C06
open Dmn

def handle (_args : List Sexp) : String := "(error not-implemented)"

end Dmn.Driver.C06
