import Dmn.Model.Sexp
import Dmn.Model.RefParser
import Dmn.Model.Escape
import Dmn.Model.RefParserLayout
import Dmn.Model.StringLit

/-! Driver handlers for C06.

* `(c06 rt <mode> <tree>)` → `(rt (toks …) <parse> <surface>)`: the rendering of the tree
  and what `Ref.parse` / `Ref.parseSurface` make of it.
* `(c06 parse (toks …))` → `(p <parse> <surface>)`.
* `(c06 drops <mode> <tree>)` → `(d ((toks …) <parse> <surface>) …)`: every rendering with one pair of
  parentheses that the printer writes — at any depth — left out.
* `(c06 needs <tree>)` → `(b …)`: `needsParens` of every direct child, in print order.
* `(c06 esc <form> <c>)` → `(e <model> <spelling…>)`: what the lexer model makes of the
  escape `form ∈ {u4, u6, sur}` spelling the code point, and the hex digit values written.
* `(c06 gap (s c…))` → `(left n)`: the number of code points `GapLayout.skipGap` leaves.
* `(c06 nextis (s chars…) (s c…))` → `(b true|false)`: `GapLayout.nextIs` (`is_next_character`) on the text.
* `(c06 table)` → the levels the model reads from `Gen/Prec.lean`.
* `(c06 strlit (s c…))` → what the lexer model (`Dmn.Lexer.consumeString`) makes of the text, whose first character is
  the opening quote: `(ok (s c…) pos)`, `(undef pos)`, `(eof pos)`, `(err pos)`.
* `(c06 pieces (raw c) (simple l) (u4 c mask) (u6 c mask) (sur c mask) (bs c) …)` → `(pieces <all ok> (s text…) (s denoted…))`:
  the specification `Dmn.StringLit` (render, denote) on the pieces the harness built.

Trees: `(a n 3)` `(a u 5)` `(a l 2)` `(bin add L R)` `(neg E)` `(between E LO HI)`
`(inst E q qs…)` `(path E n)` `(filter E I)` `(call F A…)`.  Results: `(ok <tree>)` / `(fail)`. -/

namespace Dmn.Driver.C06
open Dmn Dmn.Ref

def binName : BinOp → String
  | .or => "or" | .and => "and" | .eq => "eq" | .nq => "nq" | .lt => "lt" | .le => "le"
  | .gt => "gt" | .ge => "ge" | .in_ => "in" | .add => "add" | .sub => "sub" | .mul => "mul"
  | .div => "div" | .exp => "exp"

def binOfName : String → Option BinOp
  | "or" => some .or | "and" => some .and | "eq" => some .eq | "nq" => some .nq
  | "lt" => some .lt | "le" => some .le | "gt" => some .gt | "ge" => some .ge
  | "in" => some .in_ | "add" => some .add | "sub" => some .sub | "mul" => some .mul
  | "div" => some .div | "exp" => some .exp
  | _ => none

def tokSexp : Tok → Sexp
  | .name n => .list [.atom "n", Sexp.ofNat n]
  | .num n => .list [.atom "u", Sexp.ofNat n]
  | .lit k => .list [.atom "l", Sexp.ofNat k]
  | .kor => .atom "or" | .kand => .atom "and"
  | .eq => .atom "eq" | .nq => .atom "nq" | .lt => .atom "lt" | .le => .atom "le"
  | .gt => .atom "gt" | .ge => .atom "ge"
  | .between => .atom "between" | .band => .atom "band" | .kin => .atom "in"
  | .plus => .atom "plus" | .minus => .atom "minus" | .mul => .atom "mul" | .div => .atom "div"
  | .exp => .atom "exp" | .instance => .atom "instance" | .kof => .atom "of"
  | .lparen => .atom "lp" | .rparen => .atom "rp" | .lbrack => .atom "lb" | .rbrack => .atom "rb"
  | .dot => .atom "dot" | .comma => .atom "comma"
  | .kif => .atom "if" | .kthen => .atom "then" | .kelse => .atom "else" | .kfor => .atom "for"
  | .kreturn => .atom "return" | .ksome => .atom "some" | .kevery => .atom "every"
  | .ksatisfies => .atom "satisfies" | .kfunction => .atom "function"
  | .lbrace => .atom "lbr" | .rbrace => .atom "rbr" | .colon => .atom "colon" | .ellipsis => .atom "dots"

def tokOfSexp : Sexp → Option Tok
  | .list [.atom "n", n] => (Sexp.nat? n).map .name
  | .list [.atom "u", n] => (Sexp.nat? n).map .num
  | .list [.atom "l", n] => (Sexp.nat? n).map .lit
  | .atom "or" => some .kor | .atom "and" => some .kand
  | .atom "eq" => some .eq | .atom "nq" => some .nq | .atom "lt" => some .lt | .atom "le" => some .le
  | .atom "gt" => some .gt | .atom "ge" => some .ge
  | .atom "between" => some .between | .atom "band" => some .band | .atom "in" => some .kin
  | .atom "plus" => some .plus | .atom "minus" => some .minus | .atom "mul" => some .mul
  | .atom "div" => some .div | .atom "exp" => some .exp
  | .atom "instance" => some .instance | .atom "of" => some .kof
  | .atom "lp" => some .lparen | .atom "rp" => some .rparen
  | .atom "lb" => some .lbrack | .atom "rb" => some .rbrack
  | .atom "dot" => some .dot | .atom "comma" => some .comma
  | .atom "if" => some .kif | .atom "then" => some .kthen | .atom "else" => some .kelse
  | .atom "for" => some .kfor | .atom "return" => some .kreturn | .atom "some" => some .ksome
  | .atom "every" => some .kevery | .atom "satisfies" => some .ksatisfies
  | .atom "function" => some .kfunction
  | .atom "lbr" => some .lbrace | .atom "rbr" => some .rbrace | .atom "colon" => some .colon
  | .atom "dots" => some .ellipsis
  | _ => none

def braName : Bra → String
  | .round => "round" | .rev => "rev" | .square => "square"
def braOfName : String → Option Bra
  | "round" => some .round | "rev" => some .rev | "square" => some .square | _ => none
def cmpName : Cmp → String
  | .lt => "lt" | .le => "le" | .gt => "gt" | .ge => "ge"
def cmpOfName : String → Option Cmp
  | "lt" => some .lt | "le" => some .le | "gt" => some .gt | "ge" => some .ge | _ => none
def endSexp : End → Sexp
  | .qn q qs => .list (.atom "q" :: Sexp.ofNat q :: qs.map Sexp.ofNat)
  | .num n => .list [.atom "u", Sexp.ofNat n]
  | .lit k => .list [.atom "l", Sexp.ofNat k]
def endOfSexp : Sexp → Option End
  | .list (.atom "q" :: q :: qs) => do
    let q ← Sexp.nat? q
    let qs ← qs.mapM Sexp.nat?
    pure (.qn q qs)
  | .list [.atom "u", n] => (Sexp.nat? n).map .num
  | .list [.atom "l", n] => (Sexp.nat? n).map .lit
  | _ => none
def keySexp : Key → Sexp
  | .name n => .list [.atom "k", .atom "n", Sexp.ofNat n]
  | .str k => .list [.atom "k", .atom "s", Sexp.ofNat k]
def keyOfSexp : Sexp → Option Key
  | .list [.atom "k", .atom "n", n] => (Sexp.nat? n).map .name
  | .list [.atom "k", .atom "s", n] => (Sexp.nat? n).map .str
  | _ => none

mutual
partial def treeSexp : Tree → Sexp
  | .atom (.name n) => .list [.atom "a", .atom "n", Sexp.ofNat n]
  | .atom (.num n) => .list [.atom "a", .atom "u", Sexp.ofNat n]
  | .atom (.lit n) => .list [.atom "a", .atom "l", Sexp.ofNat n]
  | .bin o l r => .list [.atom "bin", .atom (binName o), treeSexp l, treeSexp r]
  | .neg e => .list [.atom "neg", treeSexp e]
  | .between e lo hi => .list [.atom "between", treeSexp e, treeSexp lo, treeSexp hi]
  | .instOf e q qs => .list (.atom "inst" :: treeSexp e :: Sexp.ofNat q :: qs.map Sexp.ofNat)
  | .path e n => .list [.atom "path", treeSexp e, Sexp.ofNat n]
  | .filter e i => .list [.atom "filter", treeSexp e, treeSexp i]
  | .call f as => .list (.atom "call" :: treeSexp f :: argsSexp as)
  | .callNamed f n v bs => .list (.atom "calln" :: treeSexp f :: bindsSexp (.cons n v bs))
  | .inList e a b more => .list (.atom "inl" :: treeSexp e :: treeSexp a :: treeSexp b :: argsSexp more)
  | .ite c a b => .list [.atom "if", treeSexp c, treeSexp a, treeSexp b]
  | .forS v d its body => .list (.atom "for" :: (itersSexp (.single v d its) ++ [treeSexp body]))
  | .forR v lo hi its body => .list (.atom "for" :: (itersSexp (.range v lo hi its) ++ [treeSexp body]))
  | .quant ev v d qs body =>
    .list (.atom "quant" :: .atom (if ev then "every" else "some") :: (bindsSexp (.cons v d qs) ++ [treeSexp body]))
  | .fn ps body => .list [.atom "fn", .list (.atom "p" :: ps.map Sexp.ofNat), treeSexp body]
  | .list items => .list (.atom "list" :: argsSexp items)
  | .ctx es => .list (.atom "ctx" :: entriesSexp es)
  | .range b1 lo hi b2 => .list [.atom "range", .atom (braName b1), endSexp lo, endSexp hi, .atom (braName b2)]
  | .utest c e => .list [.atom "ut", .atom (cmpName c), endSexp e]
partial def argsSexp : Args → List Sexp
  | .nil => []
  | .cons a as => treeSexp a :: argsSexp as
partial def bindsSexp : Binds → List Sexp
  | .nil => []
  | .cons n v bs => .list [.atom "b", Sexp.ofNat n, treeSexp v] :: bindsSexp bs
partial def entriesSexp : Entries → List Sexp
  | .nil => []
  | .cons k v es => .list [.atom "e", keySexp k, treeSexp v] :: entriesSexp es
partial def itersSexp : Iters → List Sexp
  | .nil => []
  | .single v d its => .list [.atom "s", Sexp.ofNat v, treeSexp d] :: itersSexp its
  | .range v lo hi its => .list [.atom "r", Sexp.ofNat v, treeSexp lo, treeSexp hi] :: itersSexp its
end

mutual
partial def treeOfSexp : Sexp → Option Tree
  | .list [.atom "a", .atom "n", n] => (Sexp.nat? n).map (fun n => .atom (.name n))
  | .list [.atom "a", .atom "u", n] => (Sexp.nat? n).map (fun n => .atom (.num n))
  | .list [.atom "a", .atom "l", n] => (Sexp.nat? n).map (fun n => .atom (.lit n))
  | .list [.atom "bin", .atom o, l, r] => do
    let o ← binOfName o
    let l ← treeOfSexp l
    let r ← treeOfSexp r
    pure (.bin o l r)
  | .list [.atom "neg", e] => (treeOfSexp e).map .neg
  | .list [.atom "between", e, lo, hi] => do
    let e ← treeOfSexp e
    let lo ← treeOfSexp lo
    let hi ← treeOfSexp hi
    pure (.between e lo hi)
  | .list (.atom "inst" :: e :: q :: qs) => do
    let e ← treeOfSexp e
    let q ← Sexp.nat? q
    let qs ← qs.mapM Sexp.nat?
    pure (.instOf e q qs)
  | .list [.atom "path", e, n] => do
    let e ← treeOfSexp e
    let n ← Sexp.nat? n
    pure (.path e n)
  | .list [.atom "filter", e, i] => do
    let e ← treeOfSexp e
    let i ← treeOfSexp i
    pure (.filter e i)
  | .list (.atom "call" :: f :: as) => do
    let f ← treeOfSexp f
    let as ← argsOfSexp as
    pure (.call f as)
  | .list (.atom "calln" :: f :: bs) => do
    let f ← treeOfSexp f
    match ← bindsOfSexp bs with
    | .cons n v bs => pure (.callNamed f n v bs)
    | .nil => none
  | .list (.atom "inl" :: e :: a :: b :: more) => do
    let e ← treeOfSexp e
    let a ← treeOfSexp a
    let b ← treeOfSexp b
    let more ← argsOfSexp more
    pure (.inList e a b more)
  | .list [.atom "if", c, a, b] => do
    let c ← treeOfSexp c
    let a ← treeOfSexp a
    let b ← treeOfSexp b
    pure (.ite c a b)
  | .list (.atom "for" :: rest) => do
    let body ← treeOfSexp (← rest.getLast?)
    match ← itersOfSexp rest.dropLast with
    | .single v d its => pure (.forS v d its body)
    | .range v lo hi its => pure (.forR v lo hi its body)
    | .nil => none
  | .list (.atom "quant" :: .atom q :: rest) => do
    let ev ← (match q with | "every" => some true | "some" => some false | _ => none)
    let body ← treeOfSexp (← rest.getLast?)
    match ← bindsOfSexp rest.dropLast with
    | .cons v d qs => pure (.quant ev v d qs body)
    | .nil => none
  | .list [.atom "fn", .list (.atom "p" :: ps), body] => do
    let ps ← ps.mapM Sexp.nat?
    let body ← treeOfSexp body
    pure (.fn ps body)
  | .list (.atom "list" :: items) => (argsOfSexp items).map .list
  | .list (.atom "ctx" :: es) => (entriesOfSexp es).map .ctx
  | .list [.atom "range", .atom b1, lo, hi, .atom b2] => do
    let b1 ← braOfName b1
    let lo ← endOfSexp lo
    let hi ← endOfSexp hi
    let b2 ← braOfName b2
    pure (.range b1 lo hi b2)
  | .list [.atom "ut", .atom c, e] => do
    let c ← cmpOfName c
    let e ← endOfSexp e
    pure (.utest c e)
  | _ => none
partial def argsOfSexp : List Sexp → Option Args
  | [] => some .nil
  | a :: as => do
    let a ← treeOfSexp a
    let as ← argsOfSexp as
    pure (.cons a as)
partial def bindsOfSexp : List Sexp → Option Binds
  | [] => some .nil
  | .list [.atom "b", n, v] :: bs => do
    let n ← Sexp.nat? n
    let v ← treeOfSexp v
    let bs ← bindsOfSexp bs
    pure (.cons n v bs)
  | _ => none
partial def entriesOfSexp : List Sexp → Option Entries
  | [] => some .nil
  | .list [.atom "e", k, v] :: es => do
    let k ← keyOfSexp k
    let v ← treeOfSexp v
    let es ← entriesOfSexp es
    pure (.cons k v es)
  | _ => none
partial def itersOfSexp : List Sexp → Option Iters
  | [] => some .nil
  | .list [.atom "s", v, d] :: its => do
    let v ← Sexp.nat? v
    let d ← treeOfSexp d
    let its ← itersOfSexp its
    pure (.single v d its)
  | .list [.atom "r", v, lo, hi] :: its => do
    let v ← Sexp.nat? v
    let lo ← treeOfSexp lo
    let hi ← treeOfSexp hi
    let its ← itersOfSexp its
    pure (.range v lo hi its)
  | _ => none
end

def resSexp : Option Tree → Sexp
  | some t => .list [.atom "ok", treeSexp t]
  | none => .list [.atom "fail"]

def modeOf : Sexp → Option Mode
  | .atom "full" => some .full
  | .atom "minimal" => some .minimal
  | _ => none

def toksSexp (ts : List Tok) : Sexp := .list (.atom "toks" :: ts.map tokSexp)

def toksOfSexp : Sexp → Option (List Tok)
  | .list (.atom "toks" :: ts) => ts.mapM tokOfSexp
  | _ => none

partial def argsList : Args → List Tree
  | .nil => []
  | .cons a as => a :: argsList as

/-- `needsParens` of the direct children, in print order. -/
def childNeeds : Tree → List Bool
  | .atom _ => []
  | .bin o l r => [needsParens (.binL o) l, needsParens (.binR o) r]
  | .neg e => [needsParens .negArg e]
  | .between e lo hi => [needsParens .betweenE e, needsParens .betweenLo lo, needsParens .betweenHi hi]
  | .instOf e _ _ => [needsParens .instE e]
  | .path e _ => [needsParens .pathE e]
  | .filter e i => [needsParens .filterE e, needsParens .filterI i]
  | .call f as => needsParens .callF f :: (argsList as).map (needsParens .callArg)
  | t => match operand t 0 with
    | some (pos, c) => [needsParens pos c]
    | none => []

def escForm (form : String) (c : Nat) : Option (Option Nat × List Nat) :=
  match form with
  | "u4" => some (Escape.lexU4 c, Escape.spell4 c)
  | "u6" => some (Escape.lexU6 c, Escape.spell6 c)
  | "sur" => some (Escape.lexSur c, Escape.spell4 (Escape.hiSur c) ++ Escape.spell4 (Escape.loSur c))
  | _ => none

def handle (args : List Sexp) : String :=
  match args with
  | [.atom "rt", m, t] =>
    match modeOf m, treeOfSexp t with
    | some m, some t =>
      let ts := print m t
      toString (Sexp.list [.atom "rt", toksSexp ts, resSexp (parse ts), resSexp (parseSurface ts)])
    | _, _ => "(error bad-request)"
  | [.atom "parse", ts] =>
    match toksOfSexp ts with
    | some ts => toString (Sexp.list [.atom "p", resSexp (parse ts), resSexp (parseSurface ts)])
    | none => "(error bad-request)"
  | [.atom "drops", m, t] =>
    -- every rendering with one pair of parentheses (at any depth) left out, with what the
    -- reference parser makes of it
    match modeOf m, treeOfSexp t with
    | some m, some t =>
      toString (Sexp.list (.atom "d" :: (drops m t).map (fun ts =>
        Sexp.list [toksSexp ts, resSexp (parse ts), resSexp (parseSurface ts)])))
    | _, _ => "(error bad-request)"
  | [.atom "needs", t] =>
    match treeOfSexp t with
    | some t => toString (Sexp.list (.atom "b" :: (childNeeds t).map Sexp.ofBool))
    | none => "(error bad-request)"
  | [.atom "esc", .atom form, c] =>
    match Sexp.nat? c with
    | some c =>
      match escForm form c with
      | some (r, sp) =>
        let r := match r with
          | some v => Sexp.list [.atom "ok", Sexp.ofNat v]
          | none => Sexp.list [.atom "fail"]
        toString (Sexp.list (.atom "e" :: r :: sp.map Sexp.ofNat))
      | none => "(error bad-form)"
    | none => "(error bad-request)"
  | [.atom "gap", .list (.atom "s" :: cs)] =>
    -- how many code points are left when the lexer has skipped what it skips before a token
    match cs.mapM Sexp.nat? with
    | some cs => toString (Sexp.list [.atom "left", Sexp.ofNat (GapLayout.skipGap cs).length])
    | none => "(error bad-request)"
  | [.atom "nextis", .list (.atom "s" :: chars), .list (.atom "s" :: cs)] =>
    -- `is_next_character(chars, …)` on the text after a keyword
    match chars.mapM Sexp.nat?, cs.mapM Sexp.nat? with
    | some chars, some cs => toString (Sexp.list [.atom "b", Sexp.ofBool (GapLayout.nextIs chars cs)])
    | _, _ => "(error bad-request)"
  | [.atom "strlit", .list (.atom "s" :: cs)] =>
    match cs.mapM Sexp.nat? with
    | some cs =>
      let cpsSexp (l : List Nat) : Sexp := .list (.atom "s" :: l.map Sexp.ofNat)
      match Dmn.Lexer.consumeString cs 0 with
      | .ok (⟨.string, .string str⟩, p) => toString (Sexp.list [.atom "ok", cpsSexp str, Sexp.ofNat p])
      | .ok (⟨.yyUndef, _⟩, p) => toString (Sexp.list [.atom "undef", Sexp.ofNat p])
      | .ok (⟨.yyEof, _⟩, p) => toString (Sexp.list [.atom "eof", Sexp.ofNat p])
      | .ok (_, p) => toString (Sexp.list [.atom "other", Sexp.ofNat p])
      | .error _ p => toString (Sexp.list [.atom "err", Sexp.ofNat p])
      | .panic _ => "(panic)"
      | .fuelOut => "(fuelout)"
    | none => "(error bad-request)"
  | .atom "pieces" :: ps =>
    let piece? : Sexp → Option StringLit.Piece
      | .list [.atom "raw", c] => (Sexp.nat? c).map .raw
      | .list [.atom "simple", c] => (Sexp.nat? c).map .simple
      | .list [.atom "bs", c] => (Sexp.nat? c).map .bs
      | .list [.atom "u4", c, m] => do pure (.u4 (← Sexp.nat? c) (← Sexp.nat? m))
      | .list [.atom "u6", c, m] => do pure (.u6 (← Sexp.nat? c) (← Sexp.nat? m))
      | .list [.atom "sur", c, m] => do pure (.sur (← Sexp.nat? c) (← Sexp.nat? m))
      | _ => none
    match ps.mapM piece? with
    | some ps =>
      let cpsSexp (l : List Nat) : Sexp := .list (.atom "s" :: l.map Sexp.ofNat)
      toString (Sexp.list [.atom "pieces", Sexp.ofBool (ps.all StringLit.Piece.ok), cpsSexp (StringLit.literal ps),
        cpsSexp (StringLit.denote ps)])
    | none => "(error bad-request)"
  | [.atom "table"] =>
    let bins : List BinOp := [.or, .and, .eq, .nq, .lt, .le, .gt, .ge, .in_, .add, .sub, .mul, .div, .exp]
    toString (Sexp.list (.atom "table" ::
      bins.map (fun o => Sexp.list [.atom (binName o), Sexp.ofNat (lvl o), Sexp.ofNat (rhsMin o), Sexp.ofBool (isNonassoc o)])
      ++ [Sexp.list [.atom "neg", Sexp.ofNat negMin], Sexp.list [.atom "hi", Sexp.ofNat hiMin],
          Sexp.list [.atom "between", Sexp.ofNat betweenLvl], Sexp.list [.atom "instance", Sexp.ofNat instLvl],
          Sexp.list [.atom "dot", Sexp.ofNat dotLvl], Sexp.list [.atom "paren", Sexp.ofNat parenLvl],
          Sexp.list [.atom "brack", Sexp.ofNat brackLvl],
          Sexp.list [.atom "ite", Sexp.ofNat iteMin], Sexp.list [.atom "for", Sexp.ofNat forMin],
          Sexp.list [.atom "some", Sexp.ofNat someMin], Sexp.list [.atom "every", Sexp.ofNat everyMin],
          Sexp.list [.atom "fn", Sexp.ofNat fnMin]]))
  | _ => "(error unknown-request)"

end Dmn.Driver.C06
