import Dmn.Model.Sexp
import Dmn.Model.BifEval
import Dmn.Model.MergeSort
import Dmn.Driver.Codec

/-! Driver handler for C08.

* `(c08 call <mode> <name> positional v…)`   → `(ok v)` | `(panic <site>)` | `(unmodelled)`
* `(c08 call <mode> <name> named (<pname> v)…)`
* `(c08 spec <name> v…)`                     → `(spec v)` | `(nospec)` | `(specs-differ old new)` (`mode`: `Spec.modeV` ≠ `Spec.mode`)
* `(c08 offending)`                          → the signatures on which the tables differ

`<mode>` is `checked` or `wrapping`; names travel as code-point lists. -/

namespace Dmn.Driver.C08
open Dmn Dmn.Codec Dmn.Bif

def showOutcome (o : Option (Outcome Value)) : String :=
  match o with
  | none => "(unmodelled)"
  | some (.ok v) => toString (Sexp.list [.atom "ok", sexpOfValue v])
  | some (.panic site) => toString (Sexp.list [.atom "panic", Sexp.ofStr site])
  | some .diverge => "(diverge)"

def isT : Value → Bool
  | .bool true => true
  | _ => false

def modeOf : Sexp → Option IntMode
  | .atom "checked" => some .checked
  | .atom "wrapping" => some .wrapping
  | _ => none

def handle (args : List Sexp) : String :=
  match args with
  | .atom "call" :: mode :: name :: .atom "positional" :: vs =>
    match modeOf mode, Sexp.str? name, vs.mapM valueOfSexp with
    | some m, some name, some vs => showOutcome (callPositional (core m) name vs)
    | _, _, _ => "(error bad-request)"
  | .atom "call" :: mode :: name :: .atom "named" :: kvs =>
    let kvs? := kvs.mapM (fun kv => match kv with
      | .list [k, v] => do
        let k ← Sexp.str? k
        let v ← valueOfSexp v
        pure (k, v)
      | _ => none)
    match modeOf mode, Sexp.str? name, kvs? with
    | some m, some name, some kvs => showOutcome (callNamed (core m) name kvs)
    | _, _, _ => "(error bad-request)"
  | .atom "spec" :: name :: vs =>
    match Sexp.str? name, vs.mapM valueOfSexp with
    | some name, some vs =>
      -- `mode`, `stddev`: the declarative specification (`Spec.mode`, `Spec.stddev`; theorems
      -- `core_mode_spec`, `core_stddev_spec`); where the older executable form `Spec.modeV` also answers,
      -- the two must agree — `(specs-differ old new)` otherwise
      match Spec.applyStats name vs, Spec.apply name vs with
      | some v, some old =>
        if sexpOfValue v == sexpOfValue old then toString (Sexp.list [.atom "spec", sexpOfValue v])
        else toString (Sexp.list [.atom "specs-differ", sexpOfValue old, sexpOfValue v])
      | some v, none => toString (Sexp.list [.atom "spec", sexpOfValue v])
      | none, some v => toString (Sexp.list [.atom "spec", sexpOfValue v])
      | none, none => "(nospec)"
    | _, _ => "(error bad-request)"
  -- `sort(list, function(x, y) <x op y>)`: the merge sort of `core::sort` on the named relation
  -- with typed parameters `function(x: T, y: T)` the relation is named `<op>:<T>`: the items are
  -- coerced to the parameter type before the body is evaluated (`FeelType::coerced`, fix 2be8c70)
  | [.atom "sort", .atom rel, l] =>
    let (rel, ty?) : String × Option FType := match rel.splitOn ":" with
      | [r, "number"] => (r, some .number)
      | [r, "string"] => (r, some .string)
      | [r, "boolean"] => (r, some .boolean)
      | [r, "Any"] => (r, some .any)
      | _ => (rel, none)
    let co : Value → Value := match ty? with
      | some t => Value.coerced t
      | none => id
    let p0? : Option (Value → Value → Bool) := match rel with
      | "lt" => some (fun x y => isT (Value.ltV x y))
      | "gt" => some (fun x y => isT (Value.gtV x y))
      | "le" => some (fun x y => isT (Value.leV x y))
      | "ge" => some (fun x y => isT (Value.geV x y))
      | "ne" => some (fun x y => isT (Value.nqV x y))
      | "eq" => some (fun x y => isT (Value.eqV x y))
      | "true" => some (fun _ _ => true)
      | "false" => some (fun _ _ => false)
      | _ => none
    let p? : Option (Value → Value → Bool) := p0?.map (fun p x y => p (co x) (co y))
    match p?, valueOfSexp l with
    | some p, some (.list xs) => toString (Sexp.list [.atom "ok", sexpOfValue (.list (mergeSort p xs))])
    | _, _ => "(error bad-request)"
  | [.atom "offending"] =>
    toString (Sexp.list (.atom "offending" :: offending.map (fun (n, ps) => Sexp.list (Sexp.ofStr n :: ps.map Sexp.ofStr))))
  | _ => "(error bad-request)"

end Dmn.Driver.C08
