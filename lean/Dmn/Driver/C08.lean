import Dmn.Model.Sexp

/-! Driver handler for C08 — not implemented yet. -/

namespace Dmn.Driver.C08
open Dmn

def handle (_args : List Sexp) : String := "(error not-implemented)"

end Dmn.Driver.C08
