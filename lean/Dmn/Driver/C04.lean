import Dmn.Model.Sexp

/-! Driver handler for C04 — not implemented yet. -/

namespace Dmn.Driver.C04
open Dmn

def handle (_args : List Sexp) : String := "(error not-implemented)"

end Dmn.Driver.C04
