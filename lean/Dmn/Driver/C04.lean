import Dmn.Model.Sexp
import Dmn.Model.Drg
import Dmn.Model.DrgSpec
import Dmn.Driver.Codec
import Dmn.Driver.C01
import Dmn.Driver.C11
import Dmn.Model.NumD128

/-!
Driver handler for C04.

`(c04 eval <ff> <gf> <graph> <name> <input context>)` → `(<model> <spec> <acyclic> <build>)`:
the model of `evaluate_invocable` (`Dmn.Drg.evaluateInvocable`), the specification
(`Dmn.Drg.Spec.evaluateInvocable`), each `(ok v)`, `(panic site)`, `(diverge)` or
`(unsupported)`, and whether the graph is acyclic (`Dmn.Drg.acyclic`).

`(c04 closure <gf> <graph> <name>)` → `(names (s …) …)`: `closureNames`.
`(c04 acyclic <graph>)` → `acyclic` / `cyclic`.
`(c04 build <graph>)` → `builds` / `cyclic-requirements`: `check_requirements` of `ModelEvaluator::new`.

    graph    ::= (graph (<input>…) (<decision>…) (<bkm>…) (<service>…) [((<name> <item>)…)])   item: as for c11
    input    ::= (<id> <name> <ty>)
    decision ::= (<id> <name> <var> <ty> (<input id>…) (<decision id>…) (<knowledge id>…) <logic>)
    bkm      ::= (<id> <name> <var> <ty> ((<param> <type>)…) (<knowledge id>…) <logic>)
    service  ::= (<id> <name> <var> <ty> (<input data id>…) (<input decision id>…) (<encapsulated id>…) (<output id>…))
    ty       ::= untyped | other | (named <item definition name>) | number | string | boolean | date | time | dateTime | dtDur | ymDur
    logic    ::= (lit <ast>) | (ctx <entry>…) | (inv <logic> (<name> <logic>)…) | (rel (row (<column> <logic>)…)…)
               | (dt <hit policy> ((in <ast> <ast>|absent)…) ((out <name>|absent <ast>|absent <ast>|absent)…)
                     ((rule (<ast>…) (<ast>…))…))
    entry    ::= (entry <name> <logic>) | (result <logic>)
-/

namespace Dmn.Driver.C04
open Dmn Dmn.Codec Dmn.Drg

def tyOfSexp : Sexp → Option VarTy
  | .atom "untyped" => some .untyped
  | .atom "other" => some .other
  | .atom "number" => some (.simple .number)
  | .atom "string" => some (.simple .string)
  | .atom "boolean" => some (.simple .boolean)
  | .atom "date" => some (.simple .date)
  | .atom "time" => some (.simple .time)
  | .atom "dateTime" => some (.simple .dateTime)
  | .atom "dtDur" => some (.simple .dtDur)
  | .atom "ymDur" => some (.simple .ymDur)
  | .list [.atom "named", n] => (Sexp.chars? n).map .named
  | _ => none

def strs (xs : List Sexp) : Option (List String) := xs.mapM Sexp.str?

partial def logicOfSexp : Sexp → Option Ast
  | .list [.atom "lit", a] => astOfSexp a
  | .list (.atom "ctx" :: entries) => do
    let es ← entries.mapM (fun e => match e with
      | .list [.atom "entry", n, l] => do
        let n ← Sexp.str? n
        let l ← logicOfSexp l
        pure (Ast.contextEntry (.contextEntryKey n) l)
      | .list [.atom "result", l] => logicOfSexp l
      | _ => none)
    pure (Boxed.context es)
  | .list (.atom "inv" :: f :: bindings) => do
    let f ← logicOfSexp f
    let bs ← bindings.mapM (fun b => match b with
      | .list [n, l] => do
        let n ← Sexp.str? n
        let l ← logicOfSexp l
        pure (Ast.namedParameter (.parameterName n) l)
      | _ => none)
    pure (Boxed.invocation f bs)
  | .list [.atom "dt", hp, .list ins, .list outs, .list rules] => do
    let hp ← Sexp.str? hp
    let opt (x : Sexp) : Option Ast := match x with
      | .atom "absent" => some Boxed.absent
      | a => astOfSexp a
    let ins ← ins.mapM (fun c => match c with
      | .list [.atom "in", e, v] => do pure (Ast.range (← astOfSexp e) (← opt v))
      | _ => none)
    let outs ← outs.mapM (fun c => match c with
      | .list [.atom "out", n, v, d] => do
        let n ← match n with
          | .atom "absent" => some Boxed.absent
          | x => (Sexp.str? x).map Ast.parameterName
        pure (Ast.between n (← opt v) (← opt d))
      | _ => none)
    let rules ← rules.mapM (fun r => match r with
      | .list [.atom "rule", .list ies, .list oes] => do
        pure (Ast.contextEntry (.expressionList (← ies.mapM astOfSexp)) (.expressionList (← oes.mapM astOfSexp)))
      | _ => none)
    pure (Boxed.table hp ins outs rules)
  | .list (.atom "rel" :: rows) => do
    let rs ← rows.mapM (fun r => match r with
      | .list (.atom "row" :: cells) => do
        let cs ← cells.mapM (fun c => match c with
          | .list [n, l] => do
            let n ← Sexp.str? n
            let l ← logicOfSexp l
            pure (Ast.namedParameter (.parameterName n) l)
          | _ => none)
        pure (Ast.namedParameters cs)
      | _ => none)
    pure (Boxed.relation rs)
  | _ => none

def inputOfSexp : Sexp → Option InputData
  | .list [id, name, ty] => do
    let id ← Sexp.str? id
    let name ← Sexp.str? name
    let ty ← tyOfSexp ty
    pure { id, name, ty }
  | _ => none

def decisionOfSexp : Sexp → Option Decision
  | .list [id, name, var, ty, .list ri, .list rd, .list rk, logic] => do
    let id ← Sexp.str? id
    let name ← Sexp.str? name
    let var ← Sexp.str? var
    let ty ← tyOfSexp ty
    let ri ← strs ri
    let rd ← strs rd
    let rk ← strs rk
    let logic ← logicOfSexp logic
    pure { id, name, var, ty, reqInputs := ri, reqDecisions := rd, reqKnowledge := rk, logic }
  | _ => none

def bkmOfSexp : Sexp → Option Bkm
  | .list [id, name, var, ty, .list ps, .list rk, logic] => do
    let id ← Sexp.str? id
    let name ← Sexp.str? name
    let var ← Sexp.str? var
    let ty ← tyOfSexp ty
    let ps ← ps.mapM (fun p => match p with
      | .list [n, t] => do
        let n ← Sexp.str? n
        let t ← typeOfSexp t
        pure (n, t)
      | _ => none)
    let rk ← strs rk
    let body ← logicOfSexp logic
    pure { id, name, var, ty, params := ps, reqKnowledge := rk, body }
  | _ => none

def serviceOfSexp : Sexp → Option Service
  | .list [id, name, var, ty, .list ind, .list inp, .list enc, .list out] => do
    let id ← Sexp.str? id
    let name ← Sexp.str? name
    let var ← Sexp.str? var
    let ty ← tyOfSexp ty
    let ind ← strs ind
    let inp ← strs inp
    let enc ← strs enc
    let out ← strs out
    pure { id, name, var, ty, inputData := ind, inputDecisions := inp, encapsulated := enc, output := out }
  | _ => none

def graphOfSexp : Sexp → Option Drg
  | .list [.atom "graph", .list is, .list ds, .list ks, .list ss] => do
    let is ← is.mapM inputOfSexp
    let ds ← ds.mapM decisionOfSexp
    let ks ← ks.mapM bkmOfSexp
    let ss ← ss.mapM serviceOfSexp
    pure { inputs := is, decisions := ds, bkms := ks, services := ss }
  | .list [.atom "graph", .list is, .list ds, .list ks, .list ss, .list items] => do
    let is ← is.mapM inputOfSexp
    let ds ← ds.mapM decisionOfSexp
    let ks ← ks.mapM bkmOfSexp
    let ss ← ss.mapM serviceOfSexp
    let items ← Dmn.Driver.C11.defsOf items
    pure { inputs := is, decisions := ds, bkms := ks, services := ss, items := items }
  | _ => none

/-- correctly rounded decimal128 arithmetic, no built-in functions, the code's iteration engine and filter index -/
def base : Env where
  num := NumOps.d128
  call := fun _ => EvalM.diverge
  bifPos := Dmn.Driver.C01.bifPosStub
  bifNamed := Dmn.Driver.C01.bifNamedStub
  iter := Eval.Variant.code.iter
  index := Eval.Variant.code.index

def render (o : Outcome Value) : String :=
  match o with
  | .ok v => if Dmn.Driver.C01.hasUnsupported v then "(unsupported)" else s!"(ok {sexpOfValue v})"
  | .panic site => s!"(panic {Sexp.ofStr site})"
  | .diverge => "(diverge)"

def ctxOfSexp := Dmn.Driver.C01.ctxOfSexp

def handle (args : List Sexp) : String :=
  match args with
  | [.atom "eval", ff, gf, g, name, input] =>
    match Sexp.nat? ff, Sexp.nat? gf, graphOfSexp g, Sexp.str? name, ctxOfSexp input with
    | some ff, some gf, some g, some name, some input =>
      -- a value the model cannot compute (`unsupported`) could be absorbed by a dependent
      -- decision: when any decision of the graph yields one on this input, the case is skipped
      let tainted := g.decisions.any (fun d => match Drg.evalDecision base g ff gf d.id input with
        | .ok v => Dmn.Driver.C01.hasUnsupported v
        | _ => false)
      let m := if tainted then "(unsupported)" else render (Drg.evaluateInvocable base g ff gf name input)
      let d := if tainted then "(unsupported)" else render (Drg.Spec.evaluateInvocable base g ff gf name input)
      s!"({m} {d} {if g.acyclic then "acyclic" else "cyclic"} {if g.checkRequirements then "builds" else "cyclic-requirements"})"
    | _, _, none, _, _ => "(error bad-graph)"
    | _, _, _, _, _ => "(error bad-args)"
  | [.atom "acyclic", g] =>
    match graphOfSexp g with
    | some g => if g.acyclic then "acyclic" else "cyclic"
    | none => "(error bad-graph)"
  | [.atom "build", g] =>
    match graphOfSexp g with
    | some g => if g.checkRequirements then "builds" else "cyclic-requirements"
    | none => "(error bad-graph)"
  | [.atom "closure", gf, g, name] =>
    match Sexp.nat? gf, graphOfSexp g, Sexp.str? name with
    | some gf, some g, some name =>
      toString (Sexp.list (.atom "names" :: (Drg.closureNames g gf name).map Sexp.ofStr))
    | _, _, _ => "(error bad-args)"
  | _ => "(error bad-request)"

end Dmn.Driver.C04
