import Dmn.Model.Sexp
import Dmn.Model.Workspace

/-! Driver handler for C17: `(c17 run (op…) (probe-name…))`. -/

namespace Dmn.Driver.C17
open Dmn Dmn.WS

def defOf : List Sexp → Option Def
  | [.atom ns, .atom name, b] => (Sexp.bool? b).map (fun b => ⟨ns, name, b⟩)
  | _ => none

def opOf : Sexp → Option Op
  | .atom "clear" => some .clear
  | .atom "deploy" => some .deploy
  | .list (.atom "add" :: r) => (defOf r).map .add
  | .list (.atom "replace" :: r) => (defOf r).map .replace
  | .list [.atom "remove", .atom ns, .atom name] => some (.remove ns name)
  | _ => none

def resStr : Res → String
  | .ok => "ok"
  | .errNamespaceExists => "errNamespaceExists"
  | .errNameExists => "errNameExists"

/-- insertion sort (the harness sorts what came out of a `HashMap`) -/
def insertSorted (x : String) : List String → List String
  | [] => [x]
  | y :: ys => if x ≤ y then x :: y :: ys else y :: insertSorted x ys

def sortStrings (xs : List String) : List String := xs.foldr insertSorted []

def runResults (s : State) : List Op → State × List Res
  | [] => (s, [])
  | op :: ops =>
    let (s', r) := step s op
    let (s'', rs) := runResults s' ops
    (s'', r :: rs)

def specResults (l : List Def) : List Op → List Def × List Res
  | [] => (l, [])
  | op :: ops =>
    let (l', r) := Spec.step l op
    let (l'', rs) := specResults l' ops
    (l'', r :: rs)

def mapEntries (m : Map) : List String :=
  sortStrings (m.map (fun (k, d) => s!"({k} {d.ns} {d.name})"))

def handle (args : List Sexp) : String :=
  match args with
  | [.atom "run", .list ops, .list probes] =>
    match ops.mapM opOf with
    | none => "(error bad-op)"
    | some ops =>
      let probes := probes.filterMap (fun p => match p with | .atom a => some a | _ => none)
      let (s, rs) := runResults init ops
      let results := " ".intercalate ("results" :: rs.map resStr)
      let defs := " ".intercalate ("defs" :: s.defs.map (fun d => s!"({d.ns} {d.name})"))
      let byNs := " ".intercalate ("byNs" :: mapEntries s.byNs)
      let byName := " ".intercalate ("byName" :: mapEntries s.byName)
      let evals := " ".intercalate ("evals" :: sortStrings s.evals)
      let can := " ".intercalate ("can" :: probes.filter (canEvaluate s))
      let (l, srs) := specResults [] ops
      let sresults := " ".intercalate ("results" :: srs.map resStr)
      let sdefs := " ".intercalate ("defs" :: l.map (fun d => s!"({d.ns} {d.name})"))
      let ev := Spec.evaluable [] [] ops
      let sev := " ".intercalate ("evaluable" :: probes.filter (fun p => ev.contains p))
      s!"((({results}) ({defs}) ({byNs}) ({byName}) ({evals}) ({can})) (({sresults}) ({sdefs}) ({sev})))"
  | _ => "(error bad-request)"

end Dmn.Driver.C17
