import Dmn.Model.Sexp
import Dmn.Model.Workspace

/-! Driver handler for C17: `(c17 load (doc…) (probe-name…))`, `(c17 run (op…) (probe-name…))` and `(c17 spec (op…) (probe-name…))`
(names: atoms, or `(s …)` when they have white space). -/

namespace Dmn.Driver.C17
open Dmn Dmn.WS

/-- a namespace / model name: an atom, or `(s …)` when it has white space -/
def nameOf : Sexp → Option String
  | .atom a => some a
  | x => Sexp.str? x

def defOf : List Sexp → Option Def
  | [ns, name, b] => do
    let ns ← nameOf ns
    let name ← nameOf name
    let b ← Sexp.bool? b
    pure ⟨ns, name, b⟩
  | _ => none

def opOf : Sexp → Option Op
  | .atom "clear" => some .clear
  | .atom "deploy" => some .deploy
  | .list (.atom "add" :: r) => (defOf r).map .add
  | .list (.atom "replace" :: r) => (defOf r).map .replace
  | .list [.atom "remove", ns, name] => do
    let ns ← nameOf ns
    let name ← nameOf name
    pure (.remove ns name)
  | _ => none

def resStr : Res → String
  | .ok => "ok"
  | .errNamespaceExists => "errNamespaceExists"
  | .errNameExists => "errNameExists"

/-- insertion sort (the harness sorts what came out of a `HashMap`) -/
def insertSorted (x : String) : List String → List String
  | [] => [x]
  | y :: ys => if x ≤ y then x :: y :: ys else y :: insertSorted x ys

def sortStrings (xs : List String) : List String := xs.foldr insertSorted []

def runResults (s : State) : List Op → State × List Res
  | [] => (s, [])
  | op :: ops =>
    let (s', r) := step s op
    let (s'', rs) := runResults s' ops
    (s'', r :: rs)

def specResults (l : List Def) : List Op → List Def × List Res
  | [] => (l, [])
  | op :: ops =>
    let (l', r) := Spec.step l op
    let (l'', rs) := specResults l' ops
    (l'', r :: rs)

def mapEntries (m : Map) : List String :=
  sortStrings (m.map (fun (k, d) => s!"({k} {d.ns} {d.name})"))

/-- a file of the directory: `x` (not a model) or `(m ns name builds)` -/
def docOf : Sexp → Option Doc
  | .atom "x" => some .unreadable
  | .list (.atom "m" :: r) => (defOf r).map .model
  | _ => none

def handle (args : List Sexp) : String :=
  match args with
  -- `(c17 load (doc…) (probe-name…))`: `Workspace::new(dir)` with the files read in this order
  | [.atom "load", .list docs, .list probes] =>
    match docs.mapM docOf, probes.mapM nameOf with
    | some docs, some probes =>
      let s := load docs
      let defs := " ".intercalate ("defs" :: s.defs.map (fun d => s!"({d.ns} {d.name})"))
      let can := " ".intercalate ("can" :: probes.filter (canEvaluate s))
      s!"(({defs}) ({can}))"
    | _, _ => "(error bad-doc)"
  | [.atom "run", .list ops, .list probes] =>
    match ops.mapM opOf with
    | none => "(error bad-op)"
    | some ops =>
      let probes := probes.filterMap (fun p => match p with | .atom a => some a | _ => none)
      let (s, rs) := runResults init ops
      let results := " ".intercalate ("results" :: rs.map resStr)
      let defs := " ".intercalate ("defs" :: s.defs.map (fun d => s!"({d.ns} {d.name})"))
      let byNs := " ".intercalate ("byNs" :: mapEntries s.byNs)
      let byName := " ".intercalate ("byName" :: mapEntries s.byName)
      let evals := " ".intercalate ("evals" :: sortStrings s.evals)
      let can := " ".intercalate ("can" :: probes.filter (canEvaluate s))
      let (l, srs) := specResults [] ops
      let sresults := " ".intercalate ("results" :: srs.map resStr)
      let sdefs := " ".intercalate ("defs" :: l.map (fun d => s!"({d.ns} {d.name})"))
      let ev := Spec.evaluable [] [] ops
      let sev := " ".intercalate ("evaluable" :: probes.filter (fun p => ev.contains p))
      s!"((({results}) ({defs}) ({byNs}) ({byName}) ({evals}) ({can})) (({sresults}) ({sdefs}) ({sev})))"
  -- the abstract workspace alone (keys compared verbatim): results of the operations and the positions of the
  -- probe names that can be evaluated afterwards; for histories driven through the server's handlers
  | [.atom "spec", .list ops, .list probes] =>
    match ops.mapM opOf, probes.mapM nameOf with
    | some ops, some probes =>
      let (_, srs) := specResults [] ops
      let ev := Spec.evaluable [] [] ops
      let idx := (List.range probes.length).filter (fun i => match probes[i]? with | some p => ev.contains p | none => false)
      let sresults := " ".intercalate ("results" :: srs.map resStr)
      let sev := " ".intercalate ("evaluable" :: idx.map toString)
      s!"(({sresults}) ({sev}))"
    | _, _ => "(error bad-op)"
  | _ => "(error bad-request)"

end Dmn.Driver.C17
