import Dmn.Model.Sexp

/-! Driver handler for C07 — not implemented yet. -/

namespace Dmn.Driver.C07
open Dmn

def handle (_args : List Sexp) : String := "(error not-implemented)"

end Dmn.Driver.C07
