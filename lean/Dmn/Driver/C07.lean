import Dmn.Model.Sexp
import Dmn.Model.DecWire
import Dmn.Model.DecString
import Dmn.Model.DecSpec

/-! Driver handler for C07.

* `(c07 num <neg> <coeff> <exp>)` →
  `(num (s sci) P isPlain valueOk jsonOk readback)`: the model of `decQuadToString`, of
  `Display` (`P` = `(s …)` or `panic`) and the specification's verdicts on that text;
* `(c07 judge <neg> <coeff> <exp> (s text))` → `(judge isPlain valueOk jsonOk readback)`:
  the specification applied to an arbitrary text (the implementation's);
* `(c07 parse (s text))` → `(parse R P)`: model of `decQuadFromString` and of the `Display` of
  the result;
* `(c07 lex (s text))` → `(lex neg N e)` / `(lex none)`: the specification reader `lexValue` —
  the text denotes `(-1)^neg · N · 10^e`;
* `(c07 literal (s before) (s after))` → `(literal R exact sig34)`: model of `build_numeric`,
  whether the result denotes exactly the digits written, whether there are ≤ 34 significant
  digits. -/

namespace Dmn.Driver.C07
open Dmn Dmn.D128 Dmn.DecWire

def readback (t : List Char) (d : D128) : String :=
  match ofString t with
  | .fin d' => if SameValue d' d then "eq" else "ne"
  | _ => "err"

def verdicts (t : List Char) (d : D128) : String :=
  let v := match plainValue t with
    | some v => denotes v d
    | none => false
  s!"{boolStr (isPlain t)} {boolStr v} {boolStr (isJsonNumber t)} {readback t d}"

/-- run-length groups of a text -/
def runs : List Char → List (Char × Nat)
  | [] => []
  | c :: cs =>
    match runs cs with
    | (c', n) :: rest => if c = c' then (c, n + 1) :: rest else (c, 1) :: (c', n) :: rest
    | [] => [(c, 1)]

/-- Text in answers: `(s cp …)` where a run of four or more equal characters is written
`(r cp count)` (plain renderings are mostly zeros, up to 6 000 of them). -/
def encText (t : List Char) : String :=
  let items := (runs t).map (fun (c, n) =>
    if n ≥ 4 then s!"(r {c.toNat} {n})" else " ".intercalate (List.replicate n (toString c.toNat)))
  "(" ++ " ".intercalate ("s" :: items) ++ ")"

def textOrPanic : Option (List Char) → String
  | some t => encText t
  | none => "panic"

/-- significant digits of a literal: digits of `before ++ after` without leading zeros -/
def sigDigits (ds : List Char) : Nat := (ds.dropWhile (· == '0')).length

def handle (args : List Sexp) : String :=
  match args with
  | [.atom "num", n, c, e] =>
    match decOfArgs [n, c, e] with
    | none => "(error bad-number)"
    | some d =>
      let p := plain d
      let v := match p with
        | some t => verdicts t d
        | none => "false false false err"
      s!"(num {encText (toSci d)} {textOrPanic p} {v})"
  | [.atom "judge", n, c, e, t] =>
    match decOfArgs [n, c, e], Sexp.chars? t with
    | some d, some t => s!"(judge {verdicts t d})"
    | _, _ => "(error bad-judge)"
  | [.atom "parse", t] =>
    match Sexp.chars? t with
    | none => "(error bad-text)"
    | some t =>
      let r := ofString t
      s!"(parse {showR r} {textOrPanic (plainR r)})"
  | [.atom "lex", t] =>
    -- the specification reader of the input direction: what the text denotes
    match Sexp.chars? t with
    | none => "(error bad-text)"
    | some t =>
      match lexValue t with
      | some (neg, n, e) => s!"(lex {boolStr neg} {n} {e})"
      | none => "(lex none)"
  | [.atom "literal", b, a] =>
    match Sexp.chars? b, Sexp.chars? a with
    | some b, some a =>
      let r := ofLiteral b a
      let exact := match r with
        | some d => denotes (false, readNat (b ++ a), a.length) d
        | none => false
      s!"(literal {showOpt r} {boolStr exact} {boolStr (sigDigits (b ++ a) ≤ 34)})"
    | _, _ => "(error bad-literal)"
  | _ => "(error bad-request)"

end Dmn.Driver.C07
