import Dmn.Model.Sexp
import Dmn.Model.Lexer
import Dmn.Model.LexerSpec
import Dmn.Gen.BifNames
import Dmn.Gen.NameChars
import Dmn.Gen.Keywords
import Dmn.Model.NameGrammar

/-!
Driver handler for C10 (and the lexer part of C05):

* `(c10 tokenize (u b t ti) (key…) input limit)` — the model's token stream
  (`Dmn.Lexer.tokenize`), start token `StartExpression`; strings are `(s cp…)`.
  Answer: `(item…)` with `item` = `(tok code payload pos)`, `(err kind arg… pos)`,
  `(panic site)` or `(fuelout)`.
* `(c10 resolve (bound…) text)` — the specification `specResolve`: `(some name len)` / `(none)`.
* `(c10 namenew (part…))` — `((s Name::new) (s flatten_name_parts))`.
* `(c10 bifnames)` — the names `Bif::from_str` accepts (regenerated table `Dmn.Gen.bifNames`), each as `(s cp…)`.
* `(c10 namechars)` — the code points at which a character class of names can change: first, last, just-before and
  just-after code point of every range of the tables regenerated from `lexer.rs` (`Dmn.Gen.NameChars`) and of the
  grammar's tables (`Dmn.NameGrammar`), and the ranges themselves: `((bounds c…) (start (lo hi)…) (part (lo hi)…))`.
* `(c10 classify c…)` — per code point `(c start part symbol white mstart mpart mwhite)`: the grammar's classification
  (`Dmn.NameGrammar`, rules 28-30, 61) and the lexer model's (`isNameStartChar`, `isNamePartChar`, `isWhitespace`).
-/

namespace Dmn.Driver.C10
open Dmn Dmn.Lexer

def ofCps (cs : List Nat) : Sexp := .list (.atom "s" :: cs.map (fun c => .atom (toString c)))

def cps? : Sexp → Option (List Nat)
  | .list (.atom "s" :: cs) => cs.mapM Sexp.nat?
  | _ => none

def cpsList? : Sexp → Option (List (List Nat))
  | .list xs => xs.mapM cps?
  | _ => none

def payloadSexp : Payload → Sexp
  | .none => .atom "none"
  | .boolean b => .list [.atom "b", Sexp.ofBool b]
  | .numeric a b => .list [.atom "num", ofCps a, ofCps b]
  | .string s => .list [.atom "str", ofCps s]
  | .name n => .list [.atom "name", ofCps n]

def errSexp (e : LexErr) (pos : Nat) : Sexp :=
  let n (x : Nat) : Sexp := .atom (toString x)
  match e with
  | .unexpectedEof => .list [.atom "err", .atom "unexpectedEof", n pos]
  | .expectedCharacter a b => .list [.atom "err", .atom "expectedCharacter", n a, n b, n pos]
  | .expectedCharacters a => .list [.atom "err", .atom "expectedCharacters", n a, n pos]
  | .expectedHexDigit a => .list [.atom "err", .atom "expectedHexDigit", n a, n pos]
  | .unicodeValueOutOfRange v => .list [.atom "err", .atom "unicodeValueOutOfRange", n v, n pos]
  | .unicodeSurrogateOutOfRange v => .list [.atom "err", .atom "unicodeSurrogateOutOfRange", n v, n pos]
  | .unicodeConversionFailed v => .list [.atom "err", .atom "unicodeConversionFailed", n v, n pos]

def siteStr : PanicSite → String
  | .itemPositions0 => "itemPositions0"
  | .tillInIndexMinus1 => "tillInIndexMinus1"
  | .tillInPositions => "tillInPositions"
  | .prefixSlice => "prefixSlice"
  | .prefixPositions => "prefixPositions"

def itemSexp : Item → Sexp
  | .token t pos => .list [.atom "tok", .atom (toString t.tt.code), payloadSexp t.val, .atom (toString pos)]
  | .error e pos => errSexp e pos
  | .panic s => .list [.atom "panic", .atom (siteStr s)]
  | .fuelOut => .list [.atom "fuelout"]

def handle (args : List Sexp) : String :=
  match args with
  | [.atom "tokenize", .list [u, b, t, ti], keys, input, limit] =>
    match Sexp.bool? u, Sexp.bool? b, Sexp.bool? t, Sexp.bool? ti, cpsList? keys, cps? input, Sexp.nat? limit with
    | some u, some b, some t, some ti, some keys, some input, some limit =>
      let l : Lx := { input := input, pos := 0, start := some .startExpression, unaryTests := u,
                      between := b, typeName := t, tillIn := ti, keys := keys }
      toString (Sexp.list ((tokenize l limit).map itemSexp))
    | _, _, _, _, _, _, _ => "(error bad-args)"
  | [.atom "resolve", bound, text] =>
    match cpsList? bound, cps? text with
    | some bound, some text =>
      match specResolve bound text with
      | some (name, len) => toString (Sexp.list [.atom "some", ofCps name, .atom (toString len)])
      | none => "(none)"
    | _, _ => "(error bad-args)"
  | [.atom "namenew", parts] =>
    match cpsList? parts with
    | some parts => toString (Sexp.list [ofCps (nameNew parts), ofCps (flattenNameParts parts)])
    | none => "(error bad-args)"
  | [.atom "bifnames"] =>
    toString (Sexp.list (Dmn.Gen.bifNames.map (fun p => ofCps (p.1.toList.map Char.toNat))))
  -- the arms of read_next_token that begin with a letter: (word, characters accepted by `is_next_character` after it)
  | [.atom "keywords"] =>
    toString (Sexp.list ((Dmn.Gen.Keywords.arms.filter (fun a =>
      match a.word with | c :: _ => isNameStartChar c | [] => false)).map (fun a =>
        Sexp.list [ofCps a.word, ofCps (a.conds.foldr (fun c acc =>
          match c with | .next cs _ => cs ++ acc | _ => acc) [])])))
  | [.atom "namechars"] =>
    let g := Dmn.Gen.NameChars.nameStartRanges ++ Dmn.Gen.NameChars.namePartRanges ++ Dmn.Gen.NameChars.whitespaceRanges ++
      Dmn.Gen.NameChars.additionalSymbolRanges
    let sp := NameGrammar.nameStartCharRanges ++ NameGrammar.namePartExtraRanges ++ NameGrammar.whiteSpaceExtraRanges ++ [(0x0A, 0x0D)]
    let bs := (NameGrammar.boundaries (g ++ sp)).eraseDups
    let rg (rs : List (Nat × Nat)) : List Sexp := rs.map (fun r => Sexp.list [.atom (toString r.1), .atom (toString r.2)])
    toString (Sexp.list [Sexp.list (.atom "bounds" :: bs.map (fun c => .atom (toString c))),
      Sexp.list (.atom "start" :: rg NameGrammar.nameStartCharRanges),
      Sexp.list (.atom "part" :: rg (NameGrammar.nameStartCharRanges ++ NameGrammar.namePartExtraRanges))])
  | .atom "classify" :: cs =>
    match cs.mapM Sexp.nat? with
    | some cs =>
      toString (Sexp.list (cs.map (fun c => Sexp.list [.atom (toString c),
        Sexp.ofBool (NameGrammar.nameStartChar c), Sexp.ofBool (NameGrammar.namePartChar c),
        Sexp.ofBool (NameGrammar.additionalNameSymbol c), Sexp.ofBool (NameGrammar.whiteSpace c),
        Sexp.ofBool (isNameStartChar c), Sexp.ofBool (isNamePartChar c), Sexp.ofBool (isWhitespace c)])))
    | none => "(error bad-args)"
  | _ => "(error bad-request)"

end Dmn.Driver.C10
