import Dmn.Model.Sexp

/-! Driver handler for C10 — not implemented yet. -/

namespace Dmn.Driver.C10
open Dmn

def handle (_args : List Sexp) : String := "(error not-implemented)"

end Dmn.Driver.C10
