import Dmn.Model.Sexp
import Dmn.Model.Concurrency
import Dmn.Model.ConcPanic
import Dmn.Gen.SharedState
import Dmn.Gen.ServerState

/-!
Driver handler for C20.

* `(c20 table)` → the checks of `Props/C20.lean` evaluated on the regenerated table, and its
  sizes: `((functions n) (closures n) (edges n) (evalReachable n) (lockOps n) (readOnly b)
  (closed b) (globals b) (ffi b) (sendSync b) (evalWrites (name…)))`.
* `(c20 run (<program>…) (<thread index>…))` → runs the interleaving semantics on abstract
  call programs and a schedule: `((finished b) (blocked n) (results r…) (alone r…))`.
  `<program>` = `(<act>…)` with `<act>` = `(r l)` acquire read, `(u l)` release read,
  `(w l)` acquire write, `(v l)` release write, `(c k)` compute `s := s * 31 + k + registry`,
  `(m k)` mutate `registry := registry + k`.
* `(c20 runp (<program>…) (<thread index>…))` → the semantics with panics (`Dmn.ConcP`): `<act>` as above plus
  `(p)` = the call panics here: `((finished b) (blocked n) (results (st ending)…) (alone (st ending)…)
  (readers n) (poisoned n) (held n))` — `readers` = the sum of the reader counts of the locks 0..15, `held` = the
  number of read guards held by all threads, `poisoned` = the number of poisoned or write-held locks.
* the table answer also has `(server b)`: the checks of the service's table (`Dmn/Gen/ServerState.lean`).
-/

namespace Dmn.Driver.C20
open Dmn Dmn.Conc Dmn.Gen.SharedState

def actOf : Sexp → Option (Act Nat Nat)
  | .list [.atom "r", l] => (Sexp.nat? l).map .acqRead
  | .list [.atom "u", l] => (Sexp.nat? l).map .relRead
  | .list [.atom "w", l] => (Sexp.nat? l).map .acqWrite
  | .list [.atom "v", l] => (Sexp.nat? l).map .relWrite
  | .list [.atom "c", k] => (Sexp.nat? k).map (fun k => .compute (fun r s => (s * 31 + k + r) % 1000000007))
  | .list [.atom "m", k] => (Sexp.nat? k).map (fun k => .mutate (fun _ r => r + k))
  | _ => none

def progOf : Sexp → Option (List (Act Nat Nat))
  | .list as => as.mapM actOf
  | _ => none

def countBlocked (w : World Nat Nat) : Nat :=
  ((List.range w.threads.length).filter (fun i =>
    match stepThread w i with
    | .blocked _ => true
    | _ => false)).length

def b (x : Bool) : String := if x then "true" else "false"

def actPOf : Sexp → Option (ConcP.Act Nat Nat)
  | .list [.atom "r", l] => (Sexp.nat? l).map .acqRead
  | .list [.atom "u", l] => (Sexp.nat? l).map .relRead
  | .list [.atom "w", l] => (Sexp.nat? l).map .acqWrite
  | .list [.atom "v", l] => (Sexp.nat? l).map .relWrite
  | .list [.atom "c", k] => (Sexp.nat? k).map (fun k => .compute (fun r s => (s * 31 + k + r) % 1000000007))
  | .list [.atom "p"] => some .panic
  | _ => none

def progPOf : Sexp → Option (List (ConcP.Act Nat Nat))
  | .list as => as.mapM actPOf
  | _ => none

def endName : ConcP.End → String
  | .running => "returned"
  | .panicked => "panicked"
  | .lockError => "lock-error"

def serverOk : Bool :=
  !Dmn.Gen.ServerState.evalEntries.isEmpty &&
  containsAll Dmn.Gen.ServerState.reachesEval Dmn.Gen.ServerState.evalEntries &&
  closedBackward Dmn.Gen.ServerState.reachesEval Dmn.Gen.ServerState.edges &&
  evalPhaseReadOnly Dmn.Gen.ServerState.reachesEval Dmn.Gen.ServerState.locations Dmn.Gen.ServerState.ops &&
  writesOutside Dmn.Gen.ServerState.reachesEval Dmn.Gen.ServerState.ops &&
  oneAcquisitionPerFn Dmn.Gen.ServerState.ops &&
  Dmn.Gen.ServerState.guardedOps.all id &&
  noUnsynchronisedGlobals Dmn.Gen.ServerState.locations

def handle (args : List Sexp) : String :=
  match args with
  | [.atom "table"] =>
    let evalWrites := ops.filter (fun o => reach evalReachable o.fn && !(o.actKind locations).readOnly)
    let names := " ".intercalate (evalWrites.map (fun o => (fnName o.fn).replace " " "_"))
    let nReach := ((List.range fnCount).filter (reach evalReachable)).length
    s!"((functions {fnCount}) (closures {closureRoots.length}) (edges {edges.length}) (evalReachable {nReach}) (lockOps {ops.length}) (ffiCalls {ffiCalls.length}) (locations {locations.length}) (readOnly {b (evalPhaseReadOnly evalReachable locations ops)}) (closed {b (reach evalReachable evalEntry && containsAll evalReachable closureRoots && closed evalReachable edges)}) (globals {b (noUnsynchronisedGlobals locations)}) (ffi {b (ffiPrivate evalReachable ffiCalls && defaultContextUses.all (·.1))}) (sendSync {b (!evaluatorTypes.isEmpty && evaluatorTypes.all (·.2.2))}) (server {b serverOk}) (serverLockOps {Dmn.Gen.ServerState.ops.length}) (evalWrites {names}))"
  | [.atom "run", .list progs, .list sched] =>
    match progs.mapM progOf, sched.mapM Sexp.nat? with
    | some progs, some sched =>
      let w0 : World Nat Nat := initWorld 5 (progs.map (fun p => (p, 1)))
      let w := run w0 sched
      let finished := w.threads.all (fun t => t.todo.isEmpty)
      let results := " ".intercalate (w.threads.map (fun t => toString t.st))
      let alones := " ".intercalate (progs.map (fun p => toString (alone 5 p 1)))
      s!"((finished {b finished}) (blocked {countBlocked w}) (results {results}) (alone {alones}))"
    | _, _ => "(error bad-run)"
  | [.atom "runp", .list progs, .list sched] =>
    match progs.mapM progPOf, sched.mapM Sexp.nat? with
    | some progs, some sched =>
      let w0 : ConcP.World Nat Nat := ConcP.initWorld 5 (progs.map (fun p => (p, 1)))
      let w := ConcP.run w0 sched
      let finished := w.threads.all (fun t => t.todo.isEmpty)
      let blocked := ((List.range w.threads.length).filter (fun i =>
        match ConcP.stepThread w i with
        | .blocked => true
        | _ => false)).length
      let results := " ".intercalate (w.threads.map (fun t => s!"({t.st} {endName t.ending})"))
      let alones := " ".intercalate (progs.map (fun p => let r := ConcP.alone 5 p 1; s!"({r.1} {endName r.2})"))
      let readers := ((List.range 16).map (fun l => (w.locks l).readers)).sum
      let poisoned := ((List.range 16).filter (fun l => (w.locks l).poisoned || (w.locks l).writer)).length
      let held := ((List.range 16).map (fun l => ConcP.heldReads w.threads l)).sum
      s!"((finished {b finished}) (blocked {blocked}) (results {results}) (alone {alones}) (readers {readers}) (poisoned {poisoned}) (held {held}))"
    | _, _ => "(error bad-run)"
  | _ => "(error bad-request)"

end Dmn.Driver.C20
