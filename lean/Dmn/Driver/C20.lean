import Dmn.Model.Sexp

/-! Driver handler for C20 — not implemented yet. -/

namespace Dmn.Driver.C20
open Dmn

def handle (_args : List Sexp) : String := "(error not-implemented)"

end Dmn.Driver.C20
