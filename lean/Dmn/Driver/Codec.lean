import Dmn.Model.Sexp
import Dmn.Model.Value
import Dmn.Driver.C16

/-! Decoding / encoding of values and syntax trees of the line protocol
(`harness/src/vals.rs` is the other end). -/

namespace Dmn.Codec
open Dmn

def typeOfSexp := Dmn.Driver.C16.typeOfSexp
def sexpOfType := Dmn.Driver.C16.sexpOfType

def optInt? : Sexp → Option (Option Int)
  | .atom "none" => some none
  | x => (Sexp.int? x).map some

partial def valueOfSexp : Sexp → Option Value
  | .atom "null" => some .null
  | .atom "irrelevant" => some .irrelevant
  | .list [.atom "b", b] => (Sexp.bool? b).map .bool
  | .list [.atom "n", neg, c, e] => do
    let neg ← Sexp.nat? neg
    let c ← Sexp.nat? c
    let e ← Sexp.int? e
    pure (.num ⟨neg == 1, c, e⟩)
  | .list (.atom "s" :: cs) => (Sexp.str? (.list (.atom "s" :: cs))).map .str
  | .list [.atom "d", y, m, d] => do
    let y ← Sexp.int? y
    let m ← Sexp.nat? m
    let d ← Sexp.nat? d
    pure (.date y m d)
  | .list [.atom "t", txt, k] => do
    let txt ← Sexp.str? txt
    let k ← optInt? k
    pure (.time ⟨txt, k⟩)
  | .list [.atom "dt", txt, k] => do
    let txt ← Sexp.str? txt
    let k ← optInt? k
    pure (.dateTime ⟨txt, k⟩)
  | .list [.atom "dtd", n] => (Sexp.int? n).map .dtDur
  | .list [.atom "ymd", n] => (Sexp.int? n).map .ymDur
  | .list (.atom "l" :: vs) => (vs.mapM valueOfSexp).map .list
  | .list (.atom "el" :: vs) => (vs.mapM valueOfSexp).map .exprList
  | .list (.atom "nl" :: vs) => (vs.mapM valueOfSexp).map .negList
  | .list (.atom "c" :: es) => do
    let es ← es.mapM (fun e => match e with
      | .list [k, v] => do
        let k ← Sexp.str? k
        let v ← valueOfSexp v
        pure (k, v)
      | _ => none)
    pure (.ctx es)
  | .list [.atom "r", lo, lc, hi, hc] => do
    let lo ← valueOfSexp lo
    let lc ← Sexp.bool? lc
    let hi ← valueOfSexp hi
    let hc ← Sexp.bool? hc
    pure (.range lo lc hi hc)
  | .list [.atom "f", .list ps, rt] => do
    let ps ← ps.mapM (fun p => match p with
      | .list [n, t] => do
        let n ← Sexp.str? n
        let t ← typeOfSexp t
        pure (n, t)
      | _ => none)
    let rt ← typeOfSexp rt
    pure (.fn ps .null rt)
  | .list [.atom "bif"] => some (.bif "")
  | .list [.atom "ty", t] => (typeOfSexp t).map .feelType
  | .list [.atom "ult", v] => (valueOfSexp v).map .unaryLt
  | .list [.atom "ule", v] => (valueOfSexp v).map .unaryLe
  | .list [.atom "ugt", v] => (valueOfSexp v).map .unaryGt
  | .list [.atom "uge", v] => (valueOfSexp v).map .unaryGe
  | _ => none

partial def sexpOfValue : Value → Sexp
  | .null => .atom "null"
  | .irrelevant => .atom "irrelevant"
  | .bool b => .list [.atom "b", Sexp.ofBool b]
  | .num d =>
    -- a positive exponent is not observable through the public API of FeelNumber (1E+1 and 10
    -- print alike): expand it, as the harness reads numbers from their plain text
    if d.exp > 0 then
      .list [.atom "n", .atom (if d.neg then "1" else "0"), Sexp.ofNat (d.coeff * 10 ^ d.exp.toNat), Sexp.ofInt 0]
    else .list [.atom "n", .atom (if d.neg then "1" else "0"), Sexp.ofNat d.coeff, Sexp.ofInt d.exp]
  | .str s => Sexp.ofStr s
  | .date y m d => .list [.atom "d", Sexp.ofInt y, Sexp.ofNat m, Sexp.ofNat d]
  | .time t => .list [.atom "t", Sexp.ofStr t.text, match t.key with | some k => Sexp.ofInt k | none => .atom "none"]
  | .dateTime t => .list [.atom "dt", Sexp.ofStr t.text, match t.key with | some k => Sexp.ofInt k | none => .atom "none"]
  | .dtDur n => .list [.atom "dtd", Sexp.ofInt n]
  | .ymDur n => .list [.atom "ymd", Sexp.ofInt n]
  | .list vs => .list (.atom "l" :: vs.map sexpOfValue)
  | .exprList vs => .list (.atom "el" :: vs.map sexpOfValue)
  | .negList vs => .list (.atom "nl" :: vs.map sexpOfValue)
  | .ctx es => .list (.atom "c" :: es.map (fun (k, v) => .list [Sexp.ofStr k, sexpOfValue v]))
  | .range lo lc hi hc => .list [.atom "r", sexpOfValue lo, Sexp.ofBool lc, sexpOfValue hi, Sexp.ofBool hc]
  | .fn ps _ rt => .list [.atom "f", .list (ps.map (fun (n, t) => .list [Sexp.ofStr n, sexpOfType t])), sexpOfType rt]
  | .bif _ => .list [.atom "bif"]
  | .feelType t => .list [.atom "ty", sexpOfType t]
  | .unaryLt v => .list [.atom "ult", sexpOfValue v]
  | .unaryLe v => .list [.atom "ule", sexpOfValue v]
  | .unaryGt v => .list [.atom "ugt", sexpOfValue v]
  | .unaryGe v => .list [.atom "uge", sexpOfValue v]
  | _ => .atom "carrier"

def s1 (f : String → Ast) : List Sexp → Option Ast
  | [k] => (Sexp.str? k).map f
  | _ => none

partial def astOfSexp : Sexp → Option Ast
  | .atom "null" => some .null
  | .atom "irrelevant" => some .irrelevant
  | .list (.atom tag :: args) =>
    let un (f : Ast → Ast) : Option Ast := match args with
      | [a] => (astOfSexp a).map f
      | _ => none
    let bin (f : Ast → Ast → Ast) : Option Ast := match args with
      | [a, b] => do
        let a ← astOfSexp a
        let b ← astOfSexp b
        pure (f a b)
      | _ => none
    let tri (f : Ast → Ast → Ast → Ast) : Option Ast := match args with
      | [a, b, c] => do
        let a ← astOfSexp a
        let b ← astOfSexp b
        let c ← astOfSexp c
        pure (f a b c)
      | _ => none
    let many (f : List Ast → Ast) : Option Ast := (args.mapM astOfSexp).map f
    let flag (f : Ast → Bool → Ast) : Option Ast := match args with
      | [a, b] => do
        let a ← astOfSexp a
        let b ← Sexp.bool? b
        pure (f a b)
      | _ => none
    match tag with
    | "add" => bin .add | "and" => bin .and | "at" => s1 .at args | "between" => tri .between
    | "boolean" => (match args with | [b] => (Sexp.bool? b).map .boolean | _ => none)
    | "commaList" => many .commaList | "context" => many .context | "contextEntry" => bin .contextEntry
    | "contextEntryKey" => s1 .contextEntryKey args | "contextType" => many .contextType
    | "contextTypeEntry" => bin .contextTypeEntry | "contextTypeEntryKey" => s1 .contextTypeEntryKey args
    | "div" => bin .div | "eq" => bin .eq | "evaluatedExpression" => un .evaluatedExpression
    | "every" => bin .every | "exp" => bin .exp | "expressionList" => many .expressionList
    | "feelType" => (match args with | [t] => (typeOfSexp t).map .feelType | _ => none)
    | "filter" => bin .filter | "for" => bin .for | "formalParameter" => bin .formalParameter
    | "formalParameters" => many .formalParameters | "functionBody" => flag .functionBody
    | "functionDefinition" => bin .functionDefinition | "functionInvocation" => bin .functionInvocation
    | "functionType" => bin .functionType | "ge" => bin .ge | "gt" => bin .gt | "if" => tri .if
    | "in" => bin .in | "instanceOf" => bin .instanceOf | "intervalEnd" => flag .intervalEnd
    | "intervalStart" => flag .intervalStart | "iterationContexts" => many .iterationContexts
    | "iterationContextSingle" => bin .iterationContextSingle
    | "iterationContextRange" => tri .iterationContextRange | "le" => bin .le | "lt" => bin .lt
    | "list" => many .list | "listType" => un .listType | "mul" => bin .mul | "name" => s1 .name args
    | "namedParameter" => bin .namedParameter | "namedParameters" => many .namedParameters
    | "negatedList" => many .negatedList | "neg" => un .neg | "nq" => bin .nq
    | "numeric" => (match args with
        | [a, b] => do
          let a ← Sexp.str? a
          let b ← Sexp.str? b
          pure (.numeric a b)
        | _ => none)
    | "or" => bin .or | "out" => bin .out | "parameterName" => s1 .parameterName args
    | "parameterTypes" => many .parameterTypes | "path" => bin .path
    | "positionalParameters" => many .positionalParameters | "qualifiedName" => many .qualifiedName
    | "qualifiedNameSegment" => s1 .qualifiedNameSegment args | "quantifiedContexts" => many .quantifiedContexts
    | "quantifiedContext" => bin .quantifiedContext | "range" => bin .range | "rangeType" => un .rangeType
    | "satisfies" => un .satisfies | "some" => bin .some | "string" => s1 .string args | "sub" => bin .sub
    | "unaryGe" => un .unaryGe | "unaryGt" => un .unaryGt | "unaryLe" => un .unaryLe | "unaryLt" => un .unaryLt
    | _ => none
  | _ => none

end Dmn.Codec
