import Dmn.Model.Sexp
import Dmn.Model.Temporal
import Dmn.Model.TemporalZone

/-! Driver handler for C14.

* `(c14 lit <kind> <known> (s …))` — the value the literal denotes in the model; `kind` is one of
  `date time dt xdt dur at`; `known` tells whether the zone name occurring in the text (if any) is
  in the zone database (the oracle).
* `(c14 timenum (c e) (c e) (c e) <none|ns>)` — `time(h, m, s[, offset duration])` from decimals.
* `(c14 zonelocal <initial> (<instant> <offset> …) (<local> …))` — for each wall-clock reading the offsets
  in force for it under the rules given (`ZoneRules.offsetsForLocal`), as `((o …) (o …) …)`.
* `(c14 print <known> <value>)` — `string(v)` and the value read back from that text by the
  constructor of the value's own kind.
-/

namespace Dmn.Driver.C14
open Dmn Dmn.Temporal

def zoneStr : Zone → String
  | .utc => "utc"
  | .localZ => "local"
  | .offset o => s!"(offset {o})"
  | .zone n => s!"(zone {Sexp.ofChars n})"

def valueStr : Value → String
  | .null => "null"
  | .panic => "panic"
  | .date d => s!"(date {d.y} {d.m} {d.d})"
  | .time t => s!"(time {t.h} {t.mi} {t.s} {t.ns} {zoneStr t.z})"
  | .dateTime x => s!"(dt {x.date.y} {x.date.m} {x.date.d} {x.time.h} {x.time.mi} {x.time.s} {x.time.ns} {zoneStr x.time.z})"
  | .dtDur n => s!"(dtd {n})"
  | .ymDur n => s!"(ymd {n})"

def zone? : Sexp → Option Zone
  | .atom "utc" => some .utc
  | .atom "local" => some .localZ
  | .list [.atom "offset", n] => (Sexp.int? n).map .offset
  | .list [.atom "zone", s] => (Sexp.chars? s).map .zone
  | _ => none

def value? : Sexp → Option Value
  | .list [.atom "date", y, m, d] => do
    pure (.date ⟨← Sexp.int? y, ← Sexp.nat? m, ← Sexp.nat? d⟩)
  | .list [.atom "time", h, mi, s, ns, z] => do
    pure (.time ⟨← Sexp.nat? h, ← Sexp.nat? mi, ← Sexp.nat? s, ← Sexp.nat? ns, ← zone? z⟩)
  | .list [.atom "dt", y, m, d, h, mi, s, ns, z] => do
    pure (.dateTime ⟨⟨← Sexp.int? y, ← Sexp.nat? m, ← Sexp.nat? d⟩,
      ⟨← Sexp.nat? h, ← Sexp.nat? mi, ← Sexp.nat? s, ← Sexp.nat? ns, ← zone? z⟩⟩)
  | .list [.atom "dtd", n] => (Sexp.int? n).map .dtDur
  | .list [.atom "ymd", n] => (Sexp.int? n).map .ymDur
  | _ => none

def readBack (zk : List Char → Bool) (v : Value) (text : List Char) : Value :=
  match v with
  | .date _ => bifDate text
  | .time _ => bifTime zk text
  | .dateTime _ => bifDateTime zk text
  | .dtDur _ => bifDuration text
  | .ymDur _ => bifDuration text
  | .null => .null
  | .panic => .null

def handle (args : List Sexp) : String :=
  match args with
  | [.atom "lit", .atom kind, known, text] =>
    match Sexp.bool? known, Sexp.chars? text with
    | some known, some cs =>
      let zk : List Char → Bool := fun _ => known
      let v :=
        if kind == "date" then bifDate cs
        else if kind == "time" then bifTime zk cs
        else if kind == "dt" then bifDateTime zk cs
        else if kind == "xdt" then   -- `FeelDateTime::try_from` alone (xsd:dateTime input)
          (match parseDateTime zk cs with
            | some dt => .dateTime dt
            | none => .null)
        else if kind == "dur" then bifDuration cs
        else atLiteral zk cs
      valueStr v
    | _, _ => "(error bad-args)"
  | [.atom "print", known, v] =>
    match Sexp.bool? known, value? v with
    | some known, some v =>
      let zk : List Char → Bool := fun _ => known
      match printValue v with
      | .ok text => s!"({Sexp.ofChars text} {valueStr (readBack zk v text)})"
      | .panic => "(panic null)"
      | .reject => "(none null)"
    | _, _ => "(error bad-args)"
  | [.atom "timenum", h, mi, sec, off] =>
    let dec? : Sexp → Option Dec := fun x => match x with
      | .list [c, e] => do pure ⟨← Sexp.int? c, ← Sexp.int? e⟩
      | _ => none
    let off? : Option (Option Int) := match off with
      | .atom "none" => some none
      | x => (Sexp.int? x).map some
    match dec? h, dec? mi, dec? sec, off? with
    | some h, some mi, some sec, some off =>
      match timeFromNumbers h mi sec off with
      | some t => valueStr (.time t)
      | none => "null"
    | _, _, _, _ => "(error bad-args)"
  | [.atom "zonelocal", initial, .list trs, .list locals] =>
    let rec pairs : List Sexp → Option (List (Int × Int))
      | [] => some []
      | a :: b :: r => do
        let a ← Sexp.int? a
        let b ← Sexp.int? b
        let r ← pairs r
        pure ((a, b) :: r)
      | _ => none
    match Sexp.int? initial, pairs trs, locals.mapM Sexp.int? with
    | some i, some t, some ls =>
      let z : ZoneRules := ⟨i, t⟩
      let one (l : Int) : String := "(" ++ " ".intercalate ((z.offsetsForLocal l).map toString) ++ ")"
      "(" ++ " ".intercalate (ls.map one) ++ ")"
    | _, _, _ => "(error bad-args)"
  | _ => "(error bad-request)"

end Dmn.Driver.C14
