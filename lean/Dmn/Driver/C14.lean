import Dmn.Model.Sexp

/-! Driver handler for C14 — not implemented yet. -/

namespace Dmn.Driver.C14
open Dmn

def handle (_args : List Sexp) : String := "(error not-implemented)"

end Dmn.Driver.C14
