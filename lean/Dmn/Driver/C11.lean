import Dmn.Model.Sexp

/-! Driver handler for C11 — not implemented yet. -/

namespace Dmn.Driver.C11
open Dmn

def handle (_args : List Sexp) : String := "(error not-implemented)"

end Dmn.Driver.C11
