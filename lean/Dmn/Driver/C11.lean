import Dmn.Model.Sexp
import Dmn.Model.ItemDef
import Dmn.Driver.C03

/-!
Driver handler for C11.

* item := `(simple T av)` | `(ref (s…) av)` | `(comp ((name item)…) av)` | `(collSimple T av)`
  | `(collRef (s…) av)` | `(collComp ((name item)…) av)`; T := string | number | boolean | date |
  time | dateTime | dtDur | ymDur; av := `none` | `(lits v…)` | `(cmp lt|le|gt|ge n)`.
* `(c11 input ((name item)…) (s var-name…) vartype value|absent)` with vartype := `none` |
  `(simple T)` | `(named (s…))` → `(<model> <spec> <conforms>)`: the value that reaches the
  decision logic by the model, by the specification, and whether the value conforms.
* `(c11 output ((name item)…) vartype value)` → `(<model>)`: the coerced decision result.
* `(c11 classify hasTypeRef isBuiltin hasComponents isCollection)` → kind | `error`.

The allowed-values tests the harness generates are literal lists and numeric comparisons; their
FEEL meaning (`? in (…)`) on the model's value type is `avPred` below — the model itself takes
an arbitrary predicate.
-/

namespace Dmn.Driver.C11
open Dmn Dmn.ID Dmn.Driver.C03

def simpleOf : Sexp → Option Simple
  | .atom "string" => some .string
  | .atom "number" => some .number
  | .atom "boolean" => some .boolean
  | .atom "date" => some .date
  | .atom "time" => some .time
  | .atom "dateTime" => some .dateTime
  | .atom "dtDur" => some .dtDur
  | .atom "ymDur" => some .ymDur
  | _ => none

/-- `? in (l1, l2, …)`: true iff the value equals one of the scalar literals;
`? in (< n)` etc.: true iff the value is a number in the half-line. -/
def avOf : Sexp → Option Allowed
  | .atom "none" => some none
  | .list (.atom "lits" :: vs) => (vs.mapM valueOf).map (fun ls => some (fun v => ls.any (· = v)))
  | .list [.atom "cmp", .atom op, n] => do
    let n ← Sexp.int? n
    let n : DNum := DNum.ofInt n
    let f : DNum → Bool ← match op with
      | "lt" => some (fun x => decide (x < n))
      | "le" => some (fun x => decide (x ≤ n))
      | "gt" => some (fun x => decide (x > n))
      | "ge" => some (fun x => decide (x ≥ n))
      | _ => none
    pure (some (fun v => match v with | .num x => f x | _ => false))
  | _ => none

partial def itemOf : Sexp → Option ItemDef
  | .list [.atom "simple", t, av] => do pure (.simple (← simpleOf t) (← avOf av))
  | .list [.atom "ref", n, av] => do pure (.referenced (← Sexp.chars? n) (← avOf av))
  | .list [.atom "collSimple", t, av] => do pure (.collSimple (← simpleOf t) (← avOf av))
  | .list [.atom "collRef", n, av] => do pure (.collReferenced (← Sexp.chars? n) (← avOf av))
  | .list [.atom "comp", .list cs, av] => do pure (.component (← cs.mapM compOf) (← avOf av))
  | .list [.atom "collComp", .list cs, av] => do pure (.collComponent (← cs.mapM compOf) (← avOf av))
  | _ => none
where
  compOf : Sexp → Option (Name × ItemDef)
    | .list [n, it] => do pure ((← Sexp.chars? n), (← itemOf it))
    | _ => none

def defsOf (xs : List Sexp) : Option Defs :=
  xs.mapM (fun (e : Sexp) => match e with
    | Sexp.list [n, it] => do pure ((← Sexp.chars? n), (← itemOf it))
    | _ => none)

def varTypeOf : Sexp → Option VarType
  | .atom "none" => some .none
  | .list [.atom "simple", t] => (simpleOf t).map .simple
  | .list [.atom "named", n] => (Sexp.chars? n).map .named
  -- the text of the `typeRef` attribute, resolved as the builder resolves it
  | .list [.atom "ref", r] => (Sexp.chars? r).map (fun r => VarType.ofRef (some r))
  | _ => none

def kindStr : Kind → String
  | .simpleType => "simpleType" | .referencedType => "referencedType" | .componentType => "componentType"
  | .collectionOfSimpleType => "collectionOfSimpleType"
  | .collectionOfReferencedType => "collectionOfReferencedType"
  | .collectionOfComponentType => "collectionOfComponentType"

def fuel : Nat := 64

def handle (args : List Sexp) : String :=
  match args with
  | [.atom "input", .list defs, name, ty, value] =>
    match defsOf defs, Sexp.chars? name, varTypeOf ty with
    | some defs, some name, some ty =>
      let input? : Option DTValue := match value with
        | .atom "absent" => some (.ctx [])
        | v => (valueOf v).map (fun x => .ctx [(name, x)])
      match input? with
      | none => "(error bad-value)"
      | some input =>
        let m := varCheck defs fuel name ty input
        let s := Spec.varProject defs fuel name ty input
        let c : Bool := match value, ty with
          | .atom "absent", _ => false
          | v, .none => (valueOf v).isSome
          | v, .simple t => ((valueOf v).map t.accepts).getD false
          | v, .named n => match valueOf v, Spec.conformsName defs fuel n with
            | some x, some p => p x
            | _, _ => false
        s!"({valueStr m} {valueStr s} {c})"
    | _, _, _ => "(error bad-argument)"
  | [.atom "output", .list defs, ty, value] =>
    match defsOf defs, varTypeOf ty, valueOf value with
    | some defs, some ty, some v => s!"({valueStr (coerceOutput defs fuel ty v)})"
    | _, _, _ => "(error bad-argument)"
  | [.atom "classify", a, b, c, d] =>
    match Sexp.bool? a, Sexp.bool? b, Sexp.bool? c, Sexp.bool? d with
    | some a, some b, some c, some d =>
      match classify a b c d with
      | some k => kindStr k
      | none => "error"
    | _, _, _, _ => "(error bad-argument)"
  | _ => "(error bad-request)"

end Dmn.Driver.C11
