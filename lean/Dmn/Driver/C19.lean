import Dmn.Model.Sexp
import Dmn.Model.Plane
import Dmn.Model.Canvas
import Dmn.Model.CanvasStages

/-!
Driver handler for C19.

* `(c19 table <spec> <decor> <layout>)` → `((draw <line>…) (plane <display>) (texts <row>…)
  (post <display>|(none)) (recognized <outcome>) (wf <bool>) (scan-inverts-draw <bool> [failing-stages marks|regions|plane…]) (fits <bool>))`: the drawing of the table, the
  plane it denotes (`planeOf`), the plane the recogniser leaves behind, and
  `recognizePlane (planeOf t)`.
* `(c19 layout <spec> <decor> <slack>)` → `(<spec> <decor> <layout>)`: `autoLayout` — the
  table with every text padded into its region, and the layout to draw it with
  (`<slack>` = `(slack (w…) (h…) boxExtra seed)`).
* `(c19 plane <plane>)` → `(recognized <outcome> (scanner-shape <bool>))`: `recognizePlane` of an arbitrary plane
  (the plane the real scanner produced for a corrupted drawing).

* `(c19 scan (s …))` → `((scanned <scan>) (recognized <outcome>))`: the scanner model on an
  arbitrary text (`scanText`: canvas.rs `scan` + `Canvas::plane`) and `recognizeText`;
  `<scan>` = `(ok <opt name> (<scell>…)…)` with `<scell>` = `(r id left top right bottom (s text))`
  or a `<cell>` atom | `(error notFound (s chars))` | `(error notAllowed <code point> (s allowed))` |
  `(error notClosed x1 y1 x2 y2)` | `(error regionNotFound left top right bottom)` | `(panic <site>)`.

Encodings: `<opt>` = `(none)` | `(some (s …))`; `<spec>` = `(spec rows|cols|cross <HP>
<opt name> ((in (s expr) <opt>)…) ((out <opt name> <opt values>)…) <opt label> ((s ann)…)
((rule ((s)…) ((s)…) ((s)…))…))`; `<decor>` = `(decor (s hp) ((s n)…) <bool split> (s blank)
((s blank)…) <bool merge> ((s in-blank)…) ((s out-blank)…))`; `<layout>` = `(layout (w…) (h…) boxRight)`; `<plane>` = `(plane <opt name>
(<cell>…)…)` with `<cell>` = `(r id (s text))` | `vo` | `va` | `ho` | `ha` | `mx` | `hx` | `vx`.
-/

namespace Dmn.Driver.C19
open Dmn Dmn.Recog

def txt (t : Text) : Sexp := Sexp.ofChars t

def opt? : Sexp → Option (Option Text)
  | .list [.atom "none"] => some none
  | .list [.atom "some", s] => (Sexp.chars? s).map some
  | _ => none

def optS : Option Text → Sexp
  | none => .list [.atom "none"]
  | some t => .list [.atom "some", txt t]

def hpOfAtom : String → Option HitPolicy
  | "U" => some .unique | "A" => some .any | "P" => some .priority | "F" => some .first
  | "R" => some .ruleOrder | "O" => some .outputOrder | "C" => some (.collect .list)
  | "C+" => some (.collect .sum) | "C#" => some (.collect .count)
  | "C<" => some (.collect .min) | "C>" => some (.collect .max)
  | _ => none

def hpAtom (h : HitPolicy) : String := String.ofList h.marker

def orientOfAtom : String → Option Orientation
  | "rows" => some .ruleAsRow | "cols" => some .ruleAsColumn | "cross" => some .crossTable
  | _ => none

def orientAtom : Orientation → String
  | .ruleAsRow => "rows" | .ruleAsColumn => "cols" | .crossTable => "cross"

def texts? (xs : List Sexp) : Option (List Text) := xs.mapM Sexp.chars?

def input? : Sexp → Option InputClause
  | .list [.atom "in", e, v] => do
    let e ← Sexp.chars? e
    let v ← opt? v
    pure ⟨e, v⟩
  | _ => none

def output? : Sexp → Option OutputClause
  | .list [.atom "out", n, v] => do
    let n ← opt? n
    let v ← opt? v
    pure ⟨n, v⟩
  | _ => none

def rule? : Sexp → Option Rule
  | .list [.atom "rule", .list a, .list b, .list c] => do
    let a ← texts? a
    let b ← texts? b
    let c ← texts? c
    pure ⟨a, b, c⟩
  | _ => none

def spec? : Sexp → Option TableSpec
  | .list [.atom "spec", .atom o, .atom hp, name, .list ins, .list outs, label, .list anns, .list rules] => do
    let o ← orientOfAtom o
    let hp ← hpOfAtom hp
    let name ← opt? name
    let ins ← ins.mapM input?
    let outs ← outs.mapM output?
    let label ← opt? label
    let anns ← texts? anns
    let rules ← rules.mapM rule?
    pure ⟨o, hp, name, ins, outs, label, anns, rules⟩
  | _ => none

def specS (t : TableSpec) : Sexp :=
  .list [.atom "spec", .atom (orientAtom t.orientation), .atom (hpAtom t.hitPolicy), optS t.infoName,
    .list (t.inputs.map fun i => .list [.atom "in", txt i.expr, optS i.values]),
    .list (t.outputs.map fun o => .list [.atom "out", optS o.name, optS o.values]),
    optS t.label,
    .list (t.annotations.map txt),
    .list (t.rules.map fun r =>
      .list [.atom "rule", .list (r.ins.map txt), .list (r.outs.map txt), .list (r.anns.map txt)])]

def decor? : Sexp → Option Decor
  | .list [.atom "decor", hp, .list nos, split, blank, .list blanks, merge, .list inb, .list outb] => do
    let hp ← Sexp.chars? hp
    let nos ← texts? nos
    let split ← Sexp.bool? split
    let blank ← Sexp.chars? blank
    let blanks ← texts? blanks
    let merge ← Sexp.bool? merge
    let inb ← texts? inb
    let outb ← texts? outb
    pure ⟨hp, nos, split, blank, blanks, merge, inb, outb⟩
  | _ => none

def layout? : Sexp → Option Layout
  | .list [.atom "layout", .list ws, .list hs, b] => do
    let ws ← ws.mapM Sexp.nat?
    let hs ← hs.mapM Sexp.nat?
    let b ← Sexp.nat? b
    pure ⟨ws, hs, b⟩
  | _ => none

def cell? : Sexp → Option Cell
  | .list [.atom "r", n, t] => do
    let n ← Sexp.nat? n
    let t ← Sexp.chars? t
    pure (.region n t)
  | .atom "vo" => some .vOut | .atom "va" => some .vAnn
  | .atom "ho" => some .hOut | .atom "ha" => some .hAnn
  | .atom "mx" => some .mainX | .atom "hx" => some .horzX | .atom "vx" => some .vertX
  | _ => none

def plane? : Sexp → Option Plane
  | .list (.atom "plane" :: name :: rows) => do
    let name ← opt? name
    let rows ← rows.mapM (fun r => match r with
      | .list cs => cs.mapM cell?
      | _ => none)
    pure ⟨name, rows⟩
  | _ => none

def errName : Err → String
  | .planeIsEmpty => "planeIsEmpty" | .rowOutOfRange => "rowOutOfRange"
  | .colOutOfRange => "colOutOfRange" | .noMainDoubleCrossing => "noMainDoubleCrossing"
  | .invalidOutputClause => "invalidOutputClause" | .invalidRuleNumber n => s!"invalidRuleNumber:{n}"
  | .cellIsNotRegion => "cellIsNotRegion" | .invalidInputExpressions => "invalidInputExpressions"
  | .tooManyRows => "tooManyRows" | .noOutputClause => "noOutputClause"
  | .expectedLeftBelow => "expectedLeftBelow" | .expectedRightAfter => "expectedRightAfter"
  | .expectedTopLeft => "expectedTopLeft" | .expectedBottomLeft => "expectedBottomLeft"
  | .expectedNoRuleNumbers => "expectedNoRuleNumbers" | .crossTabNotSupported => "crossTabNotSupported"
  | .invalidSize k => s!"invalidSize:{k}"

def siteName : Site → String
  | .builderIndex => "builderIndex"

def outcomeS : Outcome TableSpec → Sexp
  | .ok t => .list [.atom "ok", specS t]
  | .error e => .list [.atom "error", .atom (errName e)]
  | .panic s => .list [.atom "panic", .atom (siteName s)]

/-- the region texts of a plane, row by row (`-` for a cell that is not a region) -/
def textsS (rows : List (List Cell)) : Sexp :=
  .list (.atom "texts" :: rows.map fun r => .list (r.map fun c =>
    match c with
    | .region _ t => txt t
    | _ => .atom "-"))

/-- the plane `recognize_table_components` leaves in the `plane` field -/
def postRows (P : Plane) : Option (List (List Cell)) :=
  match recognizeComponents P with
  | .ok r => some r.plane.rows
  | _ => none

def slack? : Sexp → Option Slack
  | .list [.atom "slack", .list ws, .list hs, b, seed] => do
    let ws ← ws.mapM Sexp.nat?
    let hs ← hs.mapM Sexp.nat?
    let b ← Sexp.nat? b
    let seed ← Sexp.nat? seed
    pure ⟨ws, hs, b, seed⟩
  | _ => none

def decorS (d : Decor) : Sexp :=
  .list [.atom "decor", txt d.hp, .list (d.ruleNos.map txt), Sexp.ofBool d.split, txt d.hpBlank,
    .list (d.annBlanks.map txt), Sexp.ofBool d.merge, .list (d.inBlanks.map txt),
    .list (d.outBlanks.map txt)]

def layoutS (L : Layout) : Sexp :=
  .list [.atom "layout", .list (L.colW.map Sexp.ofNat), .list (L.rowH.map Sexp.ofNat), Sexp.ofNat L.boxRight]

/-- which conjuncts of `Plane.scannerShape` fail -/
def shapeFailures (P : Plane) : List Sexp :=
  (if 2 ≤ P.rows.length then [] else [Sexp.atom "fewer-than-two-rows"]) ++
  (if 0 < P.width then [] else [.atom "zero-width"]) ++
  (if P.rows.all (fun r => r.length == P.width) then [] else [.atom "ragged"]) ++
  (if P.rows.any (fun r => r.head? == some Cell.hOut) then [] else [.atom "no-double-line-in-first-column"]) ++
  (match P.rows.getLast? with
   | some last => if last.contains Cell.vOut then [] else [.atom "no-double-line-in-last-row"]
   | none => [.atom "no-double-line-in-last-row"]) ++
  (if P.removeFirstColumn.crossingsOrdered then [] else [.atom "crossings-unordered-rows"]) ++
  (match P.removeLastRow.pivot with
   | .ok P' => if P'.crossingsOrdered then [] else [.atom "crossings-unordered-columns"]
   | _ => [])

def cellAtom : Cell → String
  | .vOut => "vo" | .vAnn => "va" | .hOut => "ho" | .hAnn => "ha"
  | .mainX => "mx" | .horzX => "hx" | .vertX => "vx" | .region _ _ => "r"

def scellS : SCell → Sexp
  | .region n r t => .list [.atom "r", Sexp.ofNat n, Sexp.ofNat r.left, Sexp.ofNat r.top,
      Sexp.ofNat r.right, Sexp.ofNat r.bottom, txt t]
  | .mark c => .atom (cellAtom c)

def scanSiteName : ScanSite → String
  | .contentRow => "contentRow" | .contentCol => "contentCol" | .lenMinusOne => "lenMinusOne"
  | .rectMinusOne => "rectMinusOne" | .sliceRange => "sliceRange" | .lineIndex => "lineIndex"
  | .planeRow => "planeRow" | .planeFinalize => "planeFinalize"

def scanErrS : ScanErr → Sexp
  | .notFound cs => .list [.atom "error", .atom "notFound", txt cs]
  | .notAllowed ch cs => .list [.atom "error", .atom "notAllowed", Sexp.ofNat ch.toNat, txt cs]
  | .notClosed p q => .list [.atom "error", .atom "notClosed", Sexp.ofNat p.x, Sexp.ofNat p.y,
      Sexp.ofNat q.x, Sexp.ofNat q.y]
  | .regionNotFound r => .list [.atom "error", .atom "regionNotFound", Sexp.ofNat r.left,
      Sexp.ofNat r.top, Sexp.ofNat r.right, Sexp.ofNat r.bottom]

def scanS : Scan Scanned → Sexp
  | .ok s => .list (.atom "ok" :: optS s.infoName :: s.rows.map fun r => .list (r.map scellS))
  | .error e => scanErrS e
  | .panic s => .list [.atom "panic", .atom (scanSiteName s)]

def textOutcomeS : TextOutcome → Sexp
  | .ok t => .list [.atom "ok", specS t]
  | .error e => .list [.atom "error", .atom (errName e)]
  | .scanError e => .list [.atom "scan-error", scanErrS e]
  | .panic s => .list [.atom "panic", .atom (siteName s)]
  | .scanPanic s => .list [.atom "scan-panic", .atom (scanSiteName s)]

def handle (args : List Sexp) : String :=
  match args with
  | [.atom "scan", text] =>
    match Sexp.chars? text with
    | some t => toString (Sexp.list [.list [.atom "scanned", scanS (scanText t)],
        .list [.atom "recognized", textOutcomeS (recognizeText t)]])
    | none => "(error bad-scan-request)"
  | [.atom "layout", spec, decor, slack] =>
    match spec? spec, decor? decor, slack? slack with
    | some t, some d, some k =>
      let (d', t', L) := autoLayout d t k
      toString (Sexp.list [specS t', decorS d', layoutS L])
    | _, _, _ => "(error bad-layout-request)"
  | [.atom "table", spec, decor, layout] =>
    match spec? spec, decor? decor, layout? layout with
    | some t, some d, some L =>
      let P := if d.merge then planeOfMerged d t else planeOf d t
      let post := match postRows P with
        | some rows => .list [.atom "post", txt (displayRows rows), textsS rows]
        | none => .list [.atom "post", .atom "none"]
      toString (Sexp.list [
        .list (.atom "draw" :: (draw d L t).map txt),
        .list [.atom "plane", txt (displayRows P.rows)],
        textsS P.rows,
        post,
        .list [.atom "recognized", outcomeS (recognizePlane P)],
        .list [.atom "wf", Sexp.ofBool t.wf],
        -- `(scan-inverts-draw true)` iff the scanner model reads the drawing back AND every later
        -- stage meets its written-out expectation (stageMarks / stageRegions / stagePlane of
        -- Model/CanvasStages.lean, the hypotheses of recognize_text_roundtrip_stages); otherwise
        -- the failing stages are named
        .list (.atom "scan-inverts-draw" ::
          (if scanInvertsDraw d L t && (failingStages d L t).isEmpty then [Sexp.ofBool true]
           else Sexp.ofBool (scanInvertsDraw d L t) ::
             .atom "failing-stages" :: (failingStages d L t).map Sexp.atom)),
        -- the hypothesis `Fits` of scan_marks_of_drawing / recognize_text_roundtrip_stages, in its
        -- decidable form: the generated drawing is a legal one
        .list [.atom "fits", Sexp.ofBool (fitsB d L t)]])
    | _, _, _ => "(error bad-table-request)"
  | [.atom "plane", plane] =>
    match plane? plane with
    | some P => toString (Sexp.list [.atom "recognized", outcomeS (recognizePlane P),
        .list (.atom "scanner-shape" :: Sexp.ofBool P.scannerShape :: shapeFailures P)])
    | none => "(error bad-plane-request)"
  | _ => "(error bad-request)"

end Dmn.Driver.C19
