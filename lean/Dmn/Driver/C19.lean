import Dmn.Model.Sexp

/-! Driver handler for C19 — not implemented yet. -/

namespace Dmn.Driver.C19
open Dmn

def handle (_args : List Sexp) : String := "(error not-implemented)"

end Dmn.Driver.C19
