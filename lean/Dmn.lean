import Dmn.Model.Sexp
import Dmn.Model.FType
