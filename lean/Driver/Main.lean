import Dmn.Model.Sexp
import Dmn.Driver.C01
import Dmn.Driver.C02
import Dmn.Driver.C03
import Dmn.Driver.C04
import Dmn.Driver.C05
import Dmn.Driver.C06
import Dmn.Driver.C07
import Dmn.Driver.C08
import Dmn.Driver.C09
import Dmn.Driver.C10
import Dmn.Driver.C11
import Dmn.Driver.C12
import Dmn.Driver.C13
import Dmn.Driver.C14
import Dmn.Driver.C15
import Dmn.Driver.C16
import Dmn.Driver.C17
import Dmn.Driver.C18
import Dmn.Driver.C19
import Dmn.Driver.C20

/-! `dmn_driver`: one request per line on stdin, one answer per line on stdout.
The first atom of a request selects the property's handler (`c01` … `c20`). -/

open Dmn

def dispatch (line : String) : String :=
  match Sexp.parse line with
  | some (.list (.atom "c01" :: args)) => Dmn.Driver.C01.handle args
  | some (.list (.atom "c02" :: args)) => Dmn.Driver.C02.handle args
  | some (.list (.atom "c03" :: args)) => Dmn.Driver.C03.handle args
  | some (.list (.atom "c04" :: args)) => Dmn.Driver.C04.handle args
  | some (.list (.atom "c05" :: args)) => Dmn.Driver.C05.handle args
  | some (.list (.atom "c06" :: args)) => Dmn.Driver.C06.handle args
  | some (.list (.atom "c07" :: args)) => Dmn.Driver.C07.handle args
  | some (.list (.atom "c08" :: args)) => Dmn.Driver.C08.handle args
  | some (.list (.atom "c09" :: args)) => Dmn.Driver.C09.handle args
  | some (.list (.atom "c10" :: args)) => Dmn.Driver.C10.handle args
  | some (.list (.atom "c11" :: args)) => Dmn.Driver.C11.handle args
  | some (.list (.atom "c12" :: args)) => Dmn.Driver.C12.handle args
  | some (.list (.atom "c13" :: args)) => Dmn.Driver.C13.handle args
  | some (.list (.atom "c14" :: args)) => Dmn.Driver.C14.handle args
  | some (.list (.atom "c15" :: args)) => Dmn.Driver.C15.handle args
  | some (.list (.atom "c16" :: args)) => Dmn.Driver.C16.handle args
  | some (.list (.atom "c17" :: args)) => Dmn.Driver.C17.handle args
  | some (.list (.atom "c18" :: args)) => Dmn.Driver.C18.handle args
  | some (.list (.atom "c19" :: args)) => Dmn.Driver.C19.handle args
  | some (.list (.atom "c20" :: args)) => Dmn.Driver.C20.handle args
  | some _ => "(error unknown-family)"
  | none => "(error parse)"

partial def loop (hin : IO.FS.Stream) (hout : IO.FS.Stream) : IO Unit := do
  let line ← hin.getLine
  if line.isEmpty then return ()
  hout.putStrLn (dispatch line)
  hout.flush
  loop hin hout

def main : IO Unit := do
  loop (← IO.getStdin) (← IO.getStdout)
