import Dmn.Model.Sexp
import Dmn.Driver.C16
import Dmn.Driver.C17

/-! `dmn_driver`: one request per line on stdin, one answer per line on stdout. -/

open Dmn

def dispatch (line : String) : String :=
  match Sexp.parse line with
  | some (.list (.atom "c16" :: args)) => Dmn.Driver.C16.handle args
  | some (.list (.atom "c17" :: args)) => Dmn.Driver.C17.handle args
  | some _ => "(error unknown-family)"
  | none => "(error parse)"

partial def loop (hin : IO.FS.Stream) (hout : IO.FS.Stream) : IO Unit := do
  let line ← hin.getLine
  if line.isEmpty then return ()
  hout.putStrLn (dispatch line)
  hout.flush
  loop hin hout

def main : IO Unit := do
  loop (← IO.getStdin) (← IO.getStdout)
