#!/usr/bin/env python3
"""Regenerates lean/Dmn/Gen/NameChars.lean: the character classes of feel-parser/src/lexer.rs that decide
where a name starts, continues and ends — `is_name_start_char`, `is_name_part_char`,
`is_additional_name_symbol`, `is_whitespace`, `is_vertical_space` — as sorted, merged lists of closed
code-point ranges.

Understood forms of a class function body:
  * `matches!(ch, <pattern> | <pattern> …)` with patterns `'c'`, `'a'..='b'`, `'a'..'b'` (half open), `WS`;
  * `f(ch) || g(ch) || matches!(…)` — the union, `f`/`g` being other class functions of the file
    (`is_digit` = `ch.is_ascii_digit()` is built in);
  * an optional ASCII fast path `if ch.is_ascii() { return <expr>; }` in front of the rest (the rest then
    only counts above U+007F);
  * `TABLE.iter().any(|&(first, last)| (first..=last).contains(&ch))` (or `first..last`, half open) over a
    `const TABLE: [(char, char); N] = [ ('a', 'b'), … ];`.
Anything else is an error (exit 1): `check` then keeps the committed table and says so.
"""
import argparse, json, os, re, sys

ap = argparse.ArgumentParser()
ap.add_argument("--repo", default="/repo")
ap.add_argument("--out", required=True)
a = ap.parse_args()
src = open(os.path.join(a.repo, "feel-parser/src/lexer.rs")).read()


class Bad(Exception):
    pass


def char_lit(s):
    s = s.strip()
    if s == "WS":
        return 0x20
    m = re.fullmatch(r"'\\u\{([0-9A-Fa-f]+)\}'", s)
    if m:
        return int(m.group(1), 16)
    m = re.fullmatch(r"'\\(.)'", s)
    if m:
        return {"n": 10, "r": 13, "t": 9, "'": 39, "\\": 92, "0": 0, '"': 34}[m.group(1)]
    m = re.fullmatch(r"'(.)'", s, re.S)
    if m:
        return ord(m.group(1))
    raise Bad("character literal not understood: %r" % s)


def pattern_ranges(pats):
    out = []
    for p in split_top(pats, "|"):
        p = " ".join(p.split())
        if not p:
            continue
        m = re.fullmatch(r"(.+?)\s*\.\.=\s*(.+)", p)
        if m:
            out.append((char_lit(m.group(1)), char_lit(m.group(2))))
            continue
        m = re.fullmatch(r"(.+?)\s*\.\.\s*(.+)", p)
        if m:
            lo, hi = char_lit(m.group(1)), char_lit(m.group(2))
            if hi > lo:
                out.append((lo, hi - 1))
            continue
        c = char_lit(p)
        out.append((c, c))
    return out


LIT = re.compile(r"'(\\u\{[0-9A-Fa-f]+\}|\\.|[^'\\])'")


def split_top(s, sep):
    """split at `sep` outside of quotes and brackets"""
    parts, depth, cur, i = [], 0, "", 0
    while i < len(s):
        ch = s[i]
        ml = LIT.match(s, i)
        if ml:
            cur += ml.group(0)
            i = ml.end()
            continue
        if ch in "([{":
            depth += 1
        elif ch in ")]}":
            depth -= 1
        if depth == 0 and s.startswith(sep, i):
            parts.append(cur)
            cur = ""
            i += len(sep)
            continue
        cur += ch
        i += 1
    parts.append(cur)
    return parts


def fn_body(name):
    m = re.search(r"\bfn\s+%s\s*\(\s*ch\s*:\s*char\s*\)\s*->\s*bool\s*\{" % re.escape(name), src)
    if not m:
        raise Bad("function %s not found" % name)
    i, depth = m.end(), 1
    lit = re.compile(r"'(\\u\{[0-9A-Fa-f]+\}|\\.|[^'\\])'")
    while depth:
        ml = lit.match(src, i)
        if ml:
            i = ml.end()
            continue
        ch = src[i]
        if ch == "{":
            depth += 1
        elif ch == "}":
            depth -= 1
        i += 1
    body = src[m.end() : i - 1]
    return re.sub(r"//[^\n]*", "", body).strip()


def table(name):
    m = re.search(r"\b(?:const|static)\s+%s\s*:\s*\[\s*\(\s*char\s*,\s*char\s*\)\s*;\s*\d+\s*\]\s*=\s*\[(.*?)\]\s*;" % re.escape(name), src, re.S)
    if not m:
        raise Bad("table %s not found" % name)
    return [(char_lit(x), char_lit(y)) for x, y in re.findall(r"\(\s*('(?:\\.|[^'\\])[^']*')\s*,\s*('(?:\\.|[^'\\])[^']*')\s*\)", m.group(1))]


def norm(rs):
    rs = sorted(r for r in rs if r[0] <= r[1])
    out = []
    for lo, hi in rs:
        if out and lo <= out[-1][1] + 1:
            out[-1] = (out[-1][0], max(out[-1][1], hi))
        else:
            out.append((lo, hi))
    return out


def clip(rs, lo, hi):
    return [(max(x, lo), min(y, hi)) for x, y in rs if max(x, lo) <= min(y, hi)]


seen = {}


def expr_ranges(e):
    e = e.strip().rstrip(";").strip()
    rs = []
    for t in split_top(e, "||"):
        t = " ".join(t.split())
        m = re.fullmatch(r"matches!\s*\(\s*ch\s*,(.*)\)", t, re.S)
        if m:
            rs += pattern_ranges(m.group(1))
            continue
        m = re.fullmatch(r"(\w+)\(ch\)", t)
        if m:
            rs += class_ranges(m.group(1))
            continue
        if t == "ch.is_ascii_digit()":
            rs.append((48, 57))
            continue
        m = re.fullmatch(r"(\w+)\s*\.iter\(\)\s*\.any\(\s*\|\s*&?\(\s*(\w+)\s*,\s*(\w+)\s*\)\s*\|\s*\(\s*\2\s*(\.\.=?)\s*\3\s*\)\s*\.contains\(\s*&ch\s*\)\s*\)", t)
        if m:
            for lo, hi in table(m.group(1)):
                rs.append((lo, hi) if m.group(4) == "..=" else (lo, hi - 1))
            continue
        raise Bad("term not understood: %r" % t)
    return rs


def class_ranges(name):
    if name in seen:
        return seen[name]
    body = fn_body(name)
    m = re.match(r"if\s+ch\.is_ascii\(\)\s*\{(.*?)\}\s*(.*)", body, re.S)
    if m:
        fast = m.group(1).strip()
        fast = re.sub(r"^return\b", "", fast).strip()
        rs = clip(expr_ranges(fast), 0, 0x7F) + clip(expr_ranges(m.group(2)), 0x80, 0x10FFFF)
    else:
        rs = expr_ranges(body)
    seen[name] = norm(rs)
    return seen[name]


try:
    start = class_ranges("is_name_start_char")
    part = class_ranges("is_name_part_char")
    symbols = class_ranges("is_additional_name_symbol")
    vertical = class_ranges("is_vertical_space")
    white = class_ranges("is_whitespace")
except (Bad, ValueError, IndexError, KeyError) as e:
    print(json.dumps({"translator": "namechars", "error": str(e)}))
    sys.exit(1)


def lean_list(rs):
    return "[" + ", ".join("(0x%X, 0x%X)" % r for r in rs) + "]"


body = "/-! GENERATED by translate/namechars.py from feel-parser/src/lexer.rs — do not edit. -/\n\nnamespace Dmn.Gen.NameChars\n\n"
for nm, doc, rs in [
    ("nameStartRanges", "`is_name_start_char`", start),
    ("namePartRanges", "`is_name_part_char`", part),
    ("additionalSymbolRanges", "`is_additional_name_symbol`", symbols),
    ("verticalSpaceRanges", "`is_vertical_space`", vertical),
    ("whitespaceRanges", "`is_whitespace`", white),
]:
    body += "/-- %s: sorted, merged closed ranges of code points. -/\ndef %s : List (Nat × Nat) :=\n  %s\n\n" % (doc, nm, lean_list(rs))
body += "end Dmn.Gen.NameChars\n"
path = os.path.join(a.out, "NameChars.lean")
old = open(path).read() if os.path.exists(path) else None
if old != body:
    tmp = path + ".tmp"
    open(tmp, "w").write(body)
    os.replace(tmp, path)
print(json.dumps({"translator": "namechars", "start_ranges": len(start), "part_ranges": len(part), "whitespace_ranges": len(white), "changed": old != body}))
