#!/usr/bin/env python3
"""dispatch.py — positional.rs / named.rs / bif.rs  →  lean/Dmn/Gen/BifDispatch.lean

    translate/dispatch.py --repo /repo --out lean/Dmn/Gen

Reads the CURRENT sources and writes the two dispatch tables as data (types in
lean/Dmn/Model/BifTable.lean).  A small recursive-descent parser covers the Rust subset
the two files are written in; anything outside it makes the translator exit 1 without
touching the committed snapshot.  Last stdout line: a JSON object.
"""
import json
import os
import re
import sys


class Unsupported(Exception):
    pass


# ---------------------------------------------------------------------------- lexer
TOKEN = re.compile(r"""
    (?P<ws>\s+|//[^\n]*|/\*.*?\*/)
  | (?P<str>r\#"(?:.|\n)*?"\#|r"[^"]*"|"(?:\\.|[^"\\])*")
  | (?P<num>\d+)
  | (?P<id>[A-Za-z_][A-Za-z0-9_]*)
  | (?P<op>=>|::|\.\.|[&!(){}\[\],;.<>=@|_+\-*/:])
""", re.X | re.S)


def lex(text):
    toks, i = [], 0
    while i < len(text):
        m = TOKEN.match(text, i)
        if not m:
            raise Unsupported("cannot tokenise at %r" % text[i:i + 30])
        i = m.end()
        if m.lastgroup != "ws":
            toks.append((m.lastgroup, m.group(m.lastgroup)))
    return toks


class P:
    def __init__(self, toks):
        self.t, self.i = toks, 0

    def peek(self, k=0):
        return self.t[self.i + k] if self.i + k < len(self.t) else ("eof", "")

    def at(self, *vals):
        return all(self.peek(k)[1] == v for k, v in enumerate(vals))

    def eat(self, v=None):
        tok = self.peek()
        if v is not None and tok[1] != v:
            raise Unsupported("expected %r, found %r (token %d)" % (v, tok[1], self.i))
        self.i += 1
        return tok[1]

    def ident(self):
        tok = self.peek()
        if tok[0] != "id":
            raise Unsupported("expected identifier, found %r" % (tok[1],))
        self.i += 1
        return tok[1]

    def skip_balanced(self, open_, close):
        """after the opening bracket has been eaten: skip to the matching close"""
        depth = 1
        while depth:
            v = self.eat()
            if v == open_:
                depth += 1
            elif v == close:
                depth -= 1
            if self.i > len(self.t):
                raise Unsupported("unbalanced")

    def macro_null(self):
        """value_null!(…) / invalid_number_of_parameters!(…) / parameter_not_found!(…)"""
        name = self.ident()
        if name not in ("value_null", "invalid_number_of_parameters", "parameter_not_found"):
            raise Unsupported("unknown macro %s" % name)
        self.eat("!")
        self.eat("(")
        self.skip_balanced("(", ")")

    def at_macro(self):
        return self.peek()[0] == "id" and self.peek(1)[1] == "!"

    def core_path(self):
        """core::f  |  super::core::f   → f, or None"""
        j = self.i
        if self.at("super", "::"):
            self.i += 2
        if self.at("core", "::"):
            self.i += 2
            return self.ident()
        self.i = j
        return None


# ---------------------------------------------------------------------------- positional.rs
def pos_arg(p, bound):
    if p.at("&"):
        p.eat("&")
        if p.at_macro():
            p.macro_null()
            return ("nullLit",)
        p.eat("parameters")
        p.eat("[")
        n = int(p.eat())
        if p.at(".."):
            p.eat("..")
            p.eat("]")
            return ("slice", n)
        p.eat("]")
        return ("param", n)
    name = p.ident()
    if name == "parameters":
        return ("slice", 0)
    if name in bound and p.at(".", "as_vec", "(", ")"):
        p.i += 4
        return ("itemsOf", bound[name])
    raise Unsupported("positional argument %s" % name)


def pos_expr(p, bound):
    fn = p.core_path()
    if fn is not None:
        p.eat("(")
        args = []
        while not p.at(")"):
            args.append(pos_arg(p, bound))
            if p.at(","):
                p.eat(",")
        p.eat(")")
        return ("call", fn, args)
    if p.at_macro():
        p.macro_null()
        return ("null",)
    if p.at("match", "&", "parameters", "["):
        p.i += 4
        idx = int(p.eat())
        p.eat("]")
        p.eat("{")
        # Value::List(values) => e1, _ => e2,
        p.eat("Value"); p.eat("::"); p.eat("List"); p.eat("(")
        var = p.ident()
        p.eat(")"); p.eat("=>")
        b2 = dict(bound)
        b2[var] = idx
        t = pos_expr(p, b2)
        if p.at(","):
            p.eat(",")
        p.eat("_"); p.eat("=>")
        e = pos_expr(p, bound)
        if p.at(","):
            p.eat(",")
        p.eat("}")
        return ("ifList", idx, t, e)
    raise Unsupported("positional expression at %r" % (p.peek()[1],))


def pos_body(p):
    """returns arms [(arity, body)]"""
    if p.at("match", "parameters", ".", "len", "(", ")", "{"):
        p.i += 7
        arms = []
        while not p.at("}"):
            tok = p.peek()
            if tok[0] == "num":
                p.eat()
                ar = ("exactly", int(tok[1]))
            elif tok[0] == "id" or tok[1] == "_":
                p.eat()
                ar = ("atLeast", 0)
            else:
                raise Unsupported("arm pattern %r" % (tok[1],))
            p.eat("=>")
            arms.append((ar, pos_expr(p, {})))
            if p.at(","):
                p.eat(",")
        p.eat("}")
        return arms
    if p.at("if", "parameters", ".", "len", "(", ")", ">"):
        p.i += 7
        n = int(p.eat())
        p.eat("{")
        t = pos_expr(p, {})
        p.eat("}"); p.eat("else"); p.eat("{")
        e = pos_expr(p, {})
        p.eat("}")
        return [(("atLeast", n + 1), t), (("atLeast", 0), e)]
    e = pos_expr(p, {})
    return [(("atLeast", 0), e)]


# ---------------------------------------------------------------------------- named.rs
def get_param(p, names):
    p.eat("get_param"); p.eat("("); p.eat("parameters"); p.eat(","); p.eat("&")
    const = p.ident()
    p.eat(")")
    if const not in names:
        raise Unsupported("unknown name constant %s" % const)
    return names[const]


def pattern1(p):
    """(value, _)  |  (Value::List(list), _)   → (var, listOnly)"""
    p.eat("(")
    if p.at("Value", "::", "List", "("):
        p.i += 4
        var = p.ident()
        p.eat(")")
        lo = True
    else:
        var = p.ident()
        lo = False
    p.eat(","); p.eat("_"); p.eat(")")
    return var, lo


def named_arg(p):
    if p.at("&"):
        p.eat("&")
        p.macro_null()
        return ("nullLit",)
    if p.at("std", "::", "slice", "::", "from_ref", "("):
        # std::slice::from_ref(value): the bound value as a slice of one item
        p.i += 6
        var = p.ident()
        p.eat(")")
        return ("rawSingle", var)
    var = p.ident()
    if p.at(".", "as_vec", "(", ")"):
        p.i += 4
        return ("rawItems", var)
    return ("rawVar", var)


def parse_if_let(p, names):
    """at `if let`: ("iflet", [((var, listOnly), paramName)…], then-block, else-block or None)"""
    p.eat("if"); p.eat("let"); p.eat("Some"); p.eat("(")
    if p.at("(", "("):
        # ((a, _), (b, _)) = get_param(..).zip(get_param(..))
        p.eat("(")
        v1 = pattern1(p)
        p.eat(",")
        v2 = pattern1(p)
        p.eat(")"); p.eat(")"); p.eat("=")
        n1 = get_param(p, names)
        p.eat("."); p.eat("zip"); p.eat("(")
        n2 = get_param(p, names)
        p.eat(")")
        binds = [(v1, n1), (v2, n2)]
    else:
        v1 = pattern1(p)
        p.eat(")"); p.eat("=")
        n1 = get_param(p, names)
        binds = [(v1, n1)]
    p.eat("{")
    t = parse_block(p, names)
    p.eat("}")
    e = None
    if p.at("else", "if"):
        p.eat("else")
        e = [parse_if_let(p, names)]
    elif p.at("else"):
        p.eat("else"); p.eat("{")
        e = parse_block(p, names)
        p.eat("}")
    return ("iflet", binds, t, e)


def parse_expr(p, names):
    fn = p.core_path()
    if fn is not None:
        p.eat("(")
        args = []
        while not p.at(")"):
            args.append(named_arg(p))
            if p.at(","):
                p.eat(",")
        p.eat(")")
        return ("call", fn, args)
    if p.at_macro():
        p.macro_null()
        return ("null",)
    if p.at("if", "let"):
        return parse_if_let(p, names)
    raise Unsupported("named expression at %r" % (p.peek()[1],))


def parse_block(p, names):
    """statements up to the closing brace (not consumed)"""
    stmts = []
    while not p.at("}"):
        if p.at("return"):
            p.eat("return")
            stmts.append(("return", parse_expr(p, names)))
            if p.at(";"):
                p.eat(";")
        else:
            stmts.append(parse_expr(p, names))
            if p.at(";"):
                raise Unsupported("expression statement")
    return stmts


def conv_expr(e, bound, cont):
    if e[0] == "null":
        return ("null",)
    if e[0] == "call":
        args = []
        for a in e[2]:
            if a[0] == "nullLit":
                args.append(a)
                continue
            if a[1] not in bound:
                raise Unsupported("unbound variable %s" % a[1])
            pname, lo = bound[a[1]]
            if a[0] == "rawItems":
                if not lo:
                    raise Unsupported("as_vec on a non-list binding")
                args.append(("itemsOf", pname))
            elif a[0] == "rawSingle":
                if lo:
                    raise Unsupported("list binding used as a value")
                args.append(("single", pname))
            else:
                if lo:
                    raise Unsupported("list binding used as a value")
                args.append(("var", pname))
        return ("call", e[1], args)
    if e[0] == "iflet":
        _, binds, tblock, eblock = e
        b2 = dict(bound)
        for (var, lo), pname in binds:
            b2[var] = (pname, lo)
        t = conv_block(tblock, b2, cont)
        els = cont if eblock is None else conv_block(eblock, bound, cont)
        if els is None:
            raise Unsupported("if let without else in tail position")
        body = t
        for (var, lo), pname in reversed(binds):
            body = ("ifParam", pname, lo, body, els)
        return body
    raise Unsupported("expression kind %s" % e[0])


def conv_block(stmts, bound, cont):
    """`cont`: the value of the code after this block when control falls through (None: nothing follows)"""
    if not stmts:
        if cont is None:
            raise Unsupported("block without value")
        return cont
    s, rest = stmts[0], stmts[1:]
    if s[0] == "return":
        if rest:
            raise Unsupported("code after return")
        return conv_expr(s[1], bound, None)
    if s[0] == "iflet":
        k = conv_block(rest, bound, cont) if rest else cont
        return conv_expr(s, bound, k)
    if rest:
        raise Unsupported("expression followed by code")
    return conv_expr(s, bound, None)


# ---------------------------------------------------------------------------- files
def functions(text):
    """name -> body text of every `fn bif_*`"""
    res = {}
    for m in re.finditer(r"\bfn\s+(bif_\w+)\s*\(\s*_?parameters\s*:\s*&(?:\[Value\]|NamedParameters)\s*\)\s*->\s*Value\s*\{", text):
        i, depth = m.end(), 1
        while depth:
            c = text[i]
            if c == "{":
                depth += 1
            elif c == "}":
                depth -= 1
            i += 1
        res[m.group(1)] = text[m.end():i - 1]
    return res


def dispatch_arms(text):
    """Bif::X => bif_x(parameters)  in evaluate_bif"""
    m = re.search(r"pub fn evaluate_bif\(.*?\{\s*match bif \{(.*?)\n  \}\n\}", text, re.S)
    if not m:
        raise Unsupported("evaluate_bif not found")
    arms = re.findall(r"Bif::(\w+)\s*=>\s*(bif_\w+)\(parameters\)", m.group(1))
    if not arms:
        raise Unsupported("no arms in evaluate_bif")
    return arms


def name_constants(text):
    res = {}
    for m in re.finditer(r"static ref (NAME_\w+): Name = Name::(from|new)\((.*?)\);", text):
        parts = re.findall(r'"([^"]*)"', m.group(3))
        if m.group(2) == "from":
            res[m.group(1)] = parts[0].strip()
        else:
            res[m.group(1)] = " ".join(x.strip() for x in parts)
    return res


def bif_names(text):
    m = re.search(r"fn from_str\(s: &str\).*?match s \{(.*?)\n      _ =>", text, re.S)
    if not m:
        raise Unsupported("Bif::from_str not found")
    return re.findall(r'"([^"]+)"\s*=>\s*Ok\(Self::(\w+)\)', m.group(1))


# ---------------------------------------------------------------------------- Lean output
def q(s):
    return json.dumps(s, ensure_ascii=False)


def lean_parg(a):
    return {"param": ".param %d", "slice": ".slice %d", "itemsOf": ".itemsOf %d"}.get(a[0], ".nullLit") % a[1:] if a[0] != "nullLit" else ".nullLit"


def lean_pbody(b):
    if b[0] == "call":
        return "(.call ⟨%s, [%s]⟩)" % (q(b[1]), ", ".join(lean_parg(a) for a in b[2]))
    if b[0] == "null":
        return ".null"
    return "(.ifList %d %s %s)" % (b[1], lean_pbody(b[2]), lean_pbody(b[3]))


def lean_narg(a):
    if a[0] == "nullLit":
        return ".nullLit"
    return ".%s %s" % (a[0], q(a[1]))


def lean_nbody(b):
    if b[0] == "call":
        return "(.call ⟨%s, [%s]⟩)" % (q(b[1]), ", ".join(lean_narg(a) for a in b[2]))
    if b[0] == "null":
        return ".null"
    return "(.ifParam %s %s %s %s)" % (q(b[1]), "true" if b[2] else "false", lean_nbody(b[3]), lean_nbody(b[4]))


def main():
    args = sys.argv[1:]
    repo, out = "/repo", None
    i = 0
    while i < len(args):
        if args[i] == "--repo":
            repo = args[i + 1]; i += 2
        elif args[i] == "--out":
            out = args[i + 1]; i += 2
        else:
            i += 1
    info = {"translator": "dispatch.py", "fallback": False}
    try:
        pos_text = open(os.path.join(repo, "feel-evaluator/src/bifs/positional.rs")).read()
        named_text = open(os.path.join(repo, "feel-evaluator/src/bifs/named.rs")).read()
        bif_text = open(os.path.join(repo, "feel/src/bif.rs")).read()
        names = bif_names(bif_text)
        consts = name_constants(named_text)
        pos_rows, named_rows = [], []
        pfns, nfns = functions(pos_text), functions(named_text)
        for variant, fn in dispatch_arms(pos_text):
            if fn not in pfns:
                raise Unsupported("positional %s missing" % fn)
            p = P(lex(pfns[fn]))
            try:
                arms = pos_body(p)
                if p.peek()[0] != "eof":
                    raise Unsupported("trailing tokens")
            except Unsupported as e:
                raise Unsupported("positional::%s: %s" % (fn, e))
            pos_rows.append((variant, arms))
        for variant, fn in dispatch_arms(named_text):
            if fn not in nfns:
                raise Unsupported("named %s missing" % fn)
            p = P(lex(nfns[fn] + "}"))
            try:
                stmts = parse_block(p, consts)
                p.eat("}")
                body = conv_block(stmts, {}, None)
                if p.peek()[0] != "eof":
                    raise Unsupported("trailing tokens")
            except Unsupported as e:
                raise Unsupported("named::%s: %s" % (fn, e))
            named_rows.append((variant, body))
    except (Unsupported, OSError, AssertionError, IndexError, ValueError) as e:
        info.update({"fallback": True, "reason": str(e)})
        print(json.dumps(info))
        return 1

    lines = [
        "import Dmn.Model.BifTable",
        "",
        "/-! GENERATED by translate/dispatch.py from feel/src/bif.rs, feel-evaluator/src/bifs/positional.rs",
        "and named.rs — do not edit.  One row per arm of the two `evaluate_bif` matches. -/",
        "",
        "namespace Dmn.Gen.BifDispatch",
        "open Dmn.Bif",
        "",
        "/-- `Bif::from_str`: FEEL name ↦ variant -/",
        "def bifNames : List (String × String) := [",
        ",\n".join("  (%s, %s)" % (q(n), q(v)) for n, v in names),
        "]",
        "",
        "/-- `positional::evaluate_bif` -/",
        "def positional : List PosRow := [",
        ",\n".join("  ⟨%s, [%s]⟩" % (q(v), ", ".join("(.%s %d, %s)" % (a[0], a[1], lean_pbody(b)) for a, b in arms)) for v, arms in pos_rows),
        "]",
        "",
        "/-- `named::evaluate_bif` -/",
        "def named : List NamedRow := [",
        ",\n".join("  ⟨%s, %s⟩" % (q(v), lean_nbody(b)) for v, b in named_rows),
        "]",
        "",
        "end Dmn.Gen.BifDispatch",
        "",
    ]
    text = "\n".join(lines)
    changed = False
    if out:
        os.makedirs(out, exist_ok=True)
        path = os.path.join(out, "BifDispatch.lean")
        old = open(path).read() if os.path.exists(path) else None
        if old != text:
            tmp = path + ".tmp.%d" % os.getpid()
            with open(tmp, "w") as f:
                f.write(text)
            os.replace(tmp, path)
            changed = True
    info.update({"bif_names": len(names), "positional_rows": len(pos_rows), "named_rows": len(named_rows), "changed": changed})
    print(json.dumps(info))
    return 0


if __name__ == "__main__":
    sys.exit(main())
