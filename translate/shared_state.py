#!/usr/bin/env python3
"""shared_state.py — extracts the synchronisation structure of the evaluation path (C20).

    translate/shared_state.py --repo /repo --out lean/Dmn/Gen

Scans the crates on the evaluation path for
  * shared locations: `static`, `static mut`, `lazy_static!`, `thread_local!`, struct fields
    of type RwLock / Mutex / RefCell / Cell / Atomic*, `unsafe impl Send/Sync`;
  * lock operations `.read()`, `.write()`, `.lock()`, `.try_read()`, `.try_write()`,
    `.borrow_mut()` with their enclosing function (a `move |…| { … }` closure — a stored
    evaluator — is a function of its own: it runs when called, not when built);
  * a name-based (over-approximating) call graph, and from it which functions are reachable
    from `ModelEvaluator::evaluate_invocable` and from every stored closure (evaluation
    phase), and which only from `ModelEvaluator::new` (build phase);
  * every call of the decNumber C library with its context argument.
and writes `SharedState.lean`.  Python 3 standard library only.  The last line printed is a
JSON object.  Exit status 0 = the table was produced; anything else = the sources could not
be read as expected and the committed snapshot is left in place.
"""
import argparse
import json
import os
import re
import sys

CRATES = ["model-evaluator", "feel-evaluator", "feel", "feel-number", "feel-parser"]
KEYWORDS = {
    "if", "while", "for", "match", "loop", "return", "fn", "let", "move", "in", "as", "else", "Some", "None", "Ok", "Err",
    "Box", "Vec", "vec", "format", "write", "println", "eprintln", "panic", "assert", "assert_eq", "matches", "unreachable",
}
LOCK_METHODS = {"read": "read", "write": "write", "lock": "lock", "try_lock": "lock", "try_read": "read", "try_write": "write", "borrow_mut": "borrowMut"}
# types with interior mutability / synchronisation: a value of such a type that more than one evaluation can reach is
# shared mutable state
SYNC_TYPES = r"RwLock|Mutex|RefCell|Cell|Atomic\w+|UnsafeCell|OnceCell|OnceLock|LazyLock|LazyCell|Lazy|Once|Condvar|Barrier"
SYNC_KIND = {"RwLock": "rwlock", "Mutex": "mutex", "RefCell": "refCell", "Cell": "cell", "UnsafeCell": "unsafeCell", "OnceCell": "onceCell",
             "OnceLock": "onceCell", "LazyLock": "onceCell", "LazyCell": "onceCell", "Lazy": "onceCell", "Once": "onceCell", "Condvar": "mutex", "Barrier": "mutex"}
# `type X = … Mutex<…> …;` aliases found in the scanned crates (filled by a first pass): alias -> kind
ALIASES = {}


def sync_kind(type_text):
    """The kind of the outermost interior-mutability type named in a type (or initialiser) text, None if there is none."""
    m = re.search(r"\b(%s)\b" % SYNC_TYPES, type_text)
    if m:
        return SYNC_KIND.get(m.group(1), "atomic")
    for alias, kind in ALIASES.items():
        if re.search(r"\b%s\b" % re.escape(alias), type_text):
            return kind
    return None


def strip_code(src):
    """Blanks out comments, string literals and char literals, keeping offsets and newlines."""
    out = list(src)
    i, n = 0, len(src)

    def blank(a, b):
        for k in range(a, b):
            if out[k] != "\n":
                out[k] = " "

    while i < n:
        c = src[i]
        if src.startswith("//", i):
            j = src.find("\n", i)
            j = n if j < 0 else j
            blank(i, j)
            i = j
        elif src.startswith("/*", i):
            depth, j = 1, i + 2
            while j < n and depth > 0:
                if src.startswith("/*", j):
                    depth += 1
                    j += 2
                elif src.startswith("*/", j):
                    depth -= 1
                    j += 2
                else:
                    j += 1
            blank(i, j)
            i = j
        elif c == "r" and re.match(r'r#*"', src[i:i + 8]) and (i == 0 or not (src[i - 1].isalnum() or src[i - 1] == "_")):
            m = re.match(r'r(#*)"', src[i:])
            closing = '"' + m.group(1)
            j = src.find(closing, i + len(m.group(0)))
            j = n if j < 0 else j + len(closing)
            blank(i + len(m.group(0)), j - len(closing))
            i = j
        elif c == '"':
            j = i + 1
            while j < n and src[j] != '"':
                j += 2 if src[j] == "\\" else 1
            blank(i + 1, min(j, n))
            i = j + 1
        elif c == "'":
            # char literal or lifetime
            m = re.match(r"'(\\.[^']*|[^'\\])'", src[i:])
            if m:
                blank(i + 1, i + len(m.group(0)) - 1)
                i += len(m.group(0))
            else:
                i += 1
        else:
            i += 1
    return "".join(out)


def match_brace(code, i):
    """`code[i] == '{'` → index just after the matching `}`."""
    depth = 0
    n = len(code)
    while i < n:
        if code[i] == "{":
            depth += 1
        elif code[i] == "}":
            depth -= 1
            if depth == 0:
                return i + 1
        i += 1
    raise ValueError("unbalanced braces")


def split_args(code, open_paren):
    """`code[open_paren] == '('` → (list of top-level argument texts, ambiguous?)."""
    i, depth, args, cur = open_paren + 1, 0, [], ""
    n = len(code)
    while i < n:
        ch = code[i]
        if ch in "([{":
            depth += 1
        elif ch in ")]}":
            if depth == 0:
                break
            depth -= 1
        if ch == "," and depth == 0:
            args.append(cur)
            cur = ""
        else:
            cur += ch
        i += 1
    if cur.strip():
        args.append(cur)
    text = code[open_paren:i]
    # a comma inside generic arguments at depth 0 (`f::<A, B>`, `|a: Map<K, V>|`) makes the count unreliable
    ambiguous = bool(re.search(r"<[^<>()]*,[^<>()]*>", text))
    return [a.strip() for a in args], ambiguous


def line_of(code, pos):
    return code.count("\n", 0, pos) + 1


class Fn:
    def __init__(self, name, owner, file, line, start, end, is_closure=False, crate=""):
        self.name, self.owner, self.file, self.line = name, owner, file, line
        self.start, self.end, self.is_closure, self.crate = start, end, is_closure, crate
        self.ops, self.calls, self.ffi, self.scope_sites = [], set(), [], []
        self.nparams, self.has_self = None, False
        self.atomic_ops = []
        self.id = None

    @property
    def qname(self):
        return (self.owner + "::" if self.owner else "") + self.name


def test_ranges(code):
    """Ranges of `#[cfg(test)] mod … { … }` blocks and of the items guarded by the verification
    hooks' flag `#[cfg(dmntk_verif)]` (fn, impl or mod: not part of the code when the guard is off)."""
    res = []
    for m in re.finditer(r"#\[cfg\(test\)\]\s*(?:pub\s+)?mod\s+\w+\s*\{", code):
        b = code.index("{", m.start())
        res.append((m.start(), match_brace(code, b)))
    for m in re.finditer(r"#\[cfg\(dmntk_verif\)\]", code):
        b = code.find("{", m.end())
        semi = code.find(";", m.end())
        if b < 0 or (0 <= semi < b):
            continue  # a guarded declaration without a body
        res.append((m.start(), match_brace(code, b)))
    return res


def scan_file(path, rel, crate, fns, locations, externs, notes):
    src = open(path, encoding="utf-8").read()
    code = strip_code(src)
    skip = test_ranges(code)

    def skipped(p):
        return any(a <= p < b for a, b in skip)

    # impl blocks
    impls = []
    for m in re.finditer(r"\bimpl\b(?:\s*<[^{;]*?>)?\s+([^{;]+?)\s*\{", code):
        if skipped(m.start()):
            continue
        head = m.group(1)
        ty = head.split(" for ")[-1].strip()
        ty = re.sub(r"<.*", "", ty).strip()
        ty = ty.split("::")[-1]
        b = m.end() - 1
        impls.append((b, match_brace(code, b), ty))
    # functions
    local = []
    for m in re.finditer(r"\bfn\s+(\w+)", code):
        if skipped(m.start()):
            continue
        # find the body: first `{` before a `;` at bracket depth 0
        i, depth, body = m.end(), 0, None
        while i < len(code):
            ch = code[i]
            if ch in "(<[":
                depth += 1
            elif ch in ")>]":
                if ch == ">" and code[i - 1] == "-":
                    pass
                else:
                    depth -= 1
            elif ch == ";" and depth <= 0:
                break
            elif ch == "{" and depth <= 0:
                body = i
                break
            i += 1
        if body is None:
            continue
        end = match_brace(code, body)
        owner = ""
        for a, b, ty in impls:
            if a <= m.start() < b:
                owner = ty
        f = Fn(m.group(1), owner, rel, line_of(code, m.start()), body, end, crate=crate)
        po = code.find("(", m.end(), body)
        if po >= 0:
            params, amb = split_args(code, po)
            f.has_self = bool(params) and bool(re.match(r"(&\s*('\w+\s+)?)?(mut\s+)?self\b", params[0]))
            f.nparams = None if amb else len(params) - (1 if f.has_self else 0)
        local.append(f)
    # stored closures: `move |…| { … }` inside a function
    closures = []
    for m in re.finditer(r"\bmove\s*\|", code):
        if skipped(m.start()):
            continue
        j = code.index("|", m.end())
        k = j + 1
        while k < len(code) and code[k].isspace():
            k += 1
        if k < len(code) and code[k] == "{":
            end = match_brace(code, k)
        else:
            # expression closure: up to the end of the enclosing call / statement
            depth, e = 0, k
            while e < len(code):
                ch = code[e]
                if ch in "([{":
                    depth += 1
                elif ch in ")]}":
                    if depth == 0:
                        break
                    depth -= 1
                elif ch in ",;" and depth == 0:
                    break
                e += 1
            end = e
        parent = None
        for f in local:
            if f.start <= m.start() < f.end and (parent is None or f.start > parent.start):
                parent = f
        if parent is None:
            continue
        ln = line_of(code, m.start())
        c = Fn("{closure@%d}" % ln, parent.qname, rel, ln, k, end, is_closure=True, crate=crate)
        closures.append(c)
    owners = local + closures

    def owner_of(pos):
        best = None
        for f in owners:
            if f.start <= pos < f.end and (best is None or f.start >= best.start):
                best = f
        return best

    # lock operations
    for m in re.finditer(r"\.\s*(read|write|lock|try_lock|try_read|try_write|borrow_mut)\s*\(\s*\)", code):
        if skipped(m.start()):
            continue
        f = owner_of(m.start())
        if f is None:
            notes.append("lock operation outside any function: %s:%d" % (rel, line_of(code, m.start())))
            continue
        # receiver: the identifier chain before the dot
        k = m.start()
        while k > 0 and code[k - 1].isspace():
            k -= 1
        r = re.search(r"([\w.]+)$", code[max(0, k - 80):k])
        recv = r.group(1).split(".")[-1] if r else "?"
        f.ops.append((LOCK_METHODS[m.group(1)], recv, line_of(code, m.start())))
    # mutations of atomics / cells / once-cells (they take arguments): `.store(…)`, `.fetch_add(…)`, `.swap(…)`,
    # `.compare_exchange(…)`, `.get_or_init(…)`, `.replace(…)` on a receiver that is a known interior-mutability field or
    # captured variable is resolved in main (by receiver name); here every such call is recorded
    for m in re.finditer(r"\.\s*(store|fetch_\w+|swap|compare_exchange\w*|compare_and_swap|get_or_init|get_or_try_init|call_once)\s*\(", code):
        if skipped(m.start()):
            continue
        f = owner_of(m.start())
        if f is None:
            continue
        k = m.start()
        while k > 0 and code[k - 1].isspace():
            k -= 1
        r = re.search(r"([\w.]+)$", code[max(0, k - 80):k])
        recv = r.group(1).split(".")[-1] if r else "?"
        f.atomic_ops.append((m.group(1), recv, line_of(code, m.start())))
    # interior-mutability values made in a function that builds a stored closure and used inside that closure: they are
    # captured by the closure, so every evaluation (on every thread) reaches the same value
    for f in local:
        inner = [c for c in closures if f.start <= c.start and c.end <= f.end]
        if not inner:
            continue
        for m in re.finditer(r"\blet\s+(?:mut\s+)?(\w+)\s*(?::\s*([^=;]+?))?\s*=\s*([^;]*);", code[f.start:f.end]):
            pos = f.start + m.start()
            if any(c.start <= pos < c.end for c in inner):
                continue
            var, ty, init = m.group(1), m.group(2) or "", m.group(3)
            kind = sync_kind(ty) or (sync_kind(init) if re.search(r"::\s*(new|default|from|with_capacity)\s*\(", init) else None)
            if kind is None:
                continue
            users = [c for c in inner if c.start > pos and re.search(r"\b%s\b" % re.escape(var), code[c.start:c.end])]
            if users:
                locations.append((kind if kind != "refCell" else "cell", "%s::%s (captured by %s)" % (f.qname, var, users[0].name), re.sub(r"\s+", " ", (ty or init))[:80], rel, line_of(code, pos)))
    def arity(open_paren):
        args, amb = split_args(code, open_paren)
        return None if amb else len(args)

    # calls
    for m in re.finditer(r"(?:(\w+)\s*::\s*)?(?:(\.)\s*)?\b(\w+)\s*(?:::\s*<[^>()]*>\s*)?\(", code):
        if skipped(m.start()):
            continue
        qual, dot, name = m.group(1), m.group(2), m.group(3)
        if name in KEYWORDS and not dot and not qual:
            continue
        if m.end() - 1 > 0 and code[m.start(3) + len(name):m.end() - 1].strip().startswith("!"):
            continue
        f = owner_of(m.start(3))
        if f is None:
            continue
        # the character before an unqualified, undotted name must not be `.`/`:` (handled above)
        if not qual and not dot:
            p = m.start(3) - 1
            while p >= 0 and code[p].isspace():
                p -= 1
            if p >= 0 and code[p] in ".:":
                continue
            f.calls.add(("bare", None, name, arity(m.end() - 1)))
        elif dot:
            f.calls.add(("method", None, name, arity(m.end() - 1)))
        else:
            f.calls.add(("qual", qual, name, arity(m.end() - 1)))
    # function names passed as values: `.map_err(err_read_lock_failed)`, `.map(to_value)`
    for m in re.finditer(r"[(,]\s*(\w+)\s*(?=[,)])", code):
        if skipped(m.start()):
            continue
        f = owner_of(m.start(1))
        if f is not None:
            f.calls.add(("value", None, m.group(1), None))
    # extern "C" declarations
    for m in re.finditer(r'extern\s+"\s*C?\s*"\s*\{', code):
        b = m.end() - 1
        e = match_brace(code, b)
        for d in re.finditer(r"\bfn\s+(\w+)\s*\(([^)]*)\)", code[b:e]):
            params = [p.strip() for p in d.group(2).split(",") if p.strip()]
            ctx = [i for i, p in enumerate(params) if re.search(r"\*\s*mut\s+DecContext", p)]
            externs[d.group(1)] = ctx
    # locations
    for m in re.finditer(r"\blazy_static!\s*\{", code):
        if skipped(m.start()):
            continue
        b = m.end() - 1
        e = match_brace(code, b)
        for d in re.finditer(r"(?:pub(?:\([^)]*\))?\s+)?static\s+ref\s+(\w+)\s*:\s*([^=]+?)\s*=", code[b:e]):
            # a lazily initialised global of a type with interior mutability is not a constant
            locations.append((sync_kind(d.group(2)) or "lazyStatic", d.group(1), d.group(2).strip(), rel, line_of(code, b + d.start())))
    for m in re.finditer(r"\bthread_local!\s*\{", code):
        if not skipped(m.start()):
            locations.append(("threadLocal", "thread_local", "", rel, line_of(code, m.start())))
    for m in re.finditer(r"(?<!ref )\bstatic\s+(mut\s+)?(\w+)\s*:\s*([^=;]+)", code):
        if skipped(m.start()) or m.group(2) == "ref":
            continue
        # not inside lazy_static (those are `static ref`)
        kind = "staticMut" if m.group(1) else (sync_kind(m.group(3)) or "static")
        # a static RwLock is not one of the registries of the evaluator: it is listed as a mutex (exclusive state)
        if kind == "rwlock":
            kind = "mutex"
        locations.append((kind, m.group(2), m.group(3).strip(), rel, line_of(code, m.start())))
    for m in re.finditer(r"\bunsafe\s+impl\b[^{;]*\b(Send|Sync)\b[^{;]*", code):
        if not skipped(m.start()):
            locations.append(("unsafeImpl", m.group(1), re.sub(r"\s+", " ", m.group(0)), rel, line_of(code, m.start())))
    for m in re.finditer(r"\bstruct\s+(\w+)[^;{]*\{", code):
        if skipped(m.start()):
            continue
        b = m.end() - 1
        e = match_brace(code, b)
        for d in re.finditer(r"(\w+)\s*:\s*([^\n]*)", code[b:e]):
            kind = sync_kind(d.group(2))
            if kind is None:
                continue
            locations.append((kind, m.group(1) + "." + d.group(1), d.group(2).strip().rstrip(","), rel, line_of(code, b + d.start())))
    # FFI calls with their context argument, and Scope construction sites
    for f in owners:
        body = code[f.start:f.end]
        inner = [g for g in owners if g is not f and f.start <= g.start and g.end <= f.end]

        def mine(p):
            return not any(g.start <= p < g.end for g in inner)

        for m in re.finditer(r"\b(dec(?:Quad|Number|imal128|Context)\w*)\s*\(", body):
            pos = f.start + m.start()
            if not mine(pos) or m.group(1) not in externs:
                continue
            # arguments
            i, depth, args, cur = f.start + m.end(), 0, [], ""
            while i < len(code):
                ch = code[i]
                if ch in "([{":
                    depth += 1
                elif ch in ")]}":
                    if depth == 0:
                        args.append(cur.strip())
                        break
                    depth -= 1
                if ch == "," and depth == 0:
                    args.append(cur.strip())
                    cur = ""
                else:
                    cur += ch
                i += 1
            ctx_idx = externs[m.group(1)]
            if not ctx_idx:
                f.ffi.append((m.group(1), "none", "", line_of(code, pos)))
            for ci in ctx_idx:
                a = re.sub(r"\s+", " ", args[ci]) if ci < len(args) else "?"
                if re.fullmatch(r"&mut DEFAULT_CONTEXT\.clone\(\)", a):
                    kind = "freshClone"
                elif re.fullmatch(r"&mut (\w+)", a) and re.search(r"let\s+mut\s+%s\s*=\s*DecContext::default\(\)" % re.fullmatch(r"&mut (\w+)", a).group(1), body):
                    kind = "localFresh"
                else:
                    kind = "shared"
                f.ffi.append((m.group(1), kind, a, line_of(code, pos)))
        for m in re.finditer(r"\bScope::(?:default|new|from)\s*\(|:\s*Scope\s*=", body):
            pos = f.start + m.start()
            if mine(pos):
                f.scope_sites.append(line_of(code, pos))
    fns.extend(owners)
    # every textual use of DEFAULT_CONTEXT outside its definition must be `.clone()`
    uses = []
    for m in re.finditer(r"\bDEFAULT_CONTEXT\b(\s*\.\s*clone\s*\(\s*\))?", code):
        if skipped(m.start()):
            continue
        if re.match(r"\s*:\s*DecContext\s*=", code[m.end():m.end() + 40]):
            continue
        uses.append((bool(m.group(1)), rel, line_of(code, m.start())))
    return uses, code


def lean_str(s):
    return '"' + s.replace("\\", "\\\\").replace('"', '\\"') + '"'


def main():
    ap = argparse.ArgumentParser()
    ap.add_argument("--repo", default="/repo")
    ap.add_argument("--out", required=True)
    a = ap.parse_args()
    fns, locations, externs, notes, ctx_uses = [], [], {}, [], []
    evaluator_bounds = []
    n_files = 0
    # first pass: type aliases of interior-mutability types (`type Cache = Mutex<…>;`), to a fixed point
    alias_src = []
    for crate in CRATES:
        root = os.path.join(a.repo, crate, "src")
        for d, _, files in os.walk(root):
            for f in sorted(files):
                if f.endswith(".rs"):
                    alias_src.append(strip_code(open(os.path.join(d, f), encoding="utf-8").read()))
    ALIASES.clear()
    for _ in range(4):
        for code in alias_src:
            for m in re.finditer(r"\btype\s+(\w+)\s*(?:<[^=;]*>)?\s*=\s*([^;]*);", code):
                k = sync_kind(m.group(2))
                if k is not None and m.group(1) not in ALIASES:
                    ALIASES[m.group(1)] = k
    for crate in CRATES:
        root = os.path.join(a.repo, crate, "src")
        if not os.path.isdir(root):
            raise SystemExit("missing crate sources: %s" % root)
        # externs first (dec.rs) so that FFI calls resolve in one pass
        paths = []
        for d, _, files in os.walk(root):
            if os.sep + "tests" in d[len(root):]:
                continue
            for f in sorted(files):
                if f.endswith(".rs"):
                    paths.append(os.path.join(d, f))
        paths.sort(key=lambda p: (0 if p.endswith("dec.rs") else 1, p))
        for p in paths:
            rel = os.path.relpath(p, a.repo)
            if p.endswith("dec.rs"):
                # two passes over dec.rs: declarations, then calls
                scan_file(p, rel, crate, [], [], externs, [])
            uses, code = scan_file(p, rel, crate, fns, locations, externs, notes)
            ctx_uses += uses
            n_files += 1
            for m in re.finditer(r"\btype\s+(\w+)\s*=\s*Box<\s*dyn\s+Fn[^;]*;", code):
                evaluator_bounds.append((m.group(1), rel, line_of(code, m.start()), bool(re.search(r"\+\s*Send\s*\+\s*Sync|\+\s*Sync\s*\+\s*Send", m.group(0)))))
    if n_files < 20 or not fns:
        raise SystemExit("too few sources scanned")
    # ids
    fns.sort(key=lambda f: (f.file, f.start, f.is_closure))
    for i, f in enumerate(fns):
        f.id = i
    by_q, by_name_method, by_name_free = {}, {}, {}
    types = set()
    for f in fns:
        if f.is_closure:
            continue
        by_q.setdefault((f.owner, f.name), []).append(f)
        if f.owner:
            types.add(f.owner)
            by_name_method.setdefault(f.name, []).append(f)
        else:
            by_name_free.setdefault(f.name, []).append(f)
    edges = set()
    for f in fns:
        for kind, qual, name, nargs in f.calls:
            targets = []
            if kind == "qual":
                q = qual
                if q == "Self":
                    q = f.owner.split("::")[0] if not f.is_closure else f.owner.split("::")[0]
                if (q, name) in by_q:
                    targets = by_q[(q, name)]
                elif q in types:
                    targets = []  # derived / trait-provided function of a known type
                elif q[:1].islower():
                    # module path: `crate::builders::build_evaluator(…)`
                    targets = by_name_free.get(name, [])
            elif kind == "method":
                targets = by_name_method.get(name, [])
            elif kind in ("bare", "value"):
                targets = by_name_free.get(name, [])
            for t in targets:
                if t.id == f.id:
                    continue
                # Rust has neither overloading nor variadic functions: a call with n arguments
                # cannot denote a function with m ≠ n parameters
                if nargs is not None and t.nparams is not None:
                    want = t.nparams
                    if kind == "qual" and t.has_self:
                        want += 1
                    if kind == "method" and not t.has_self:
                        continue
                    if nargs != want:
                        continue
                edges.add((f.id, t.id))
    # roots
    eval_root = [f for f in fns if f.qname == "ModelEvaluator::evaluate_invocable"]
    build_root = [f for f in fns if f.qname == "ModelEvaluator::new"]
    if len(eval_root) != 1 or len(build_root) != 1:
        raise SystemExit("ModelEvaluator::evaluate_invocable / ModelEvaluator::new not found exactly once")
    closure_roots = [f for f in fns if f.is_closure and f.crate in ("model-evaluator", "feel-evaluator", "feel")]
    succ = {}
    for x, y in edges:
        succ.setdefault(x, []).append(y)

    def reach(roots):
        seen, todo = set(), [r.id for r in roots]
        while todo:
            x = todo.pop()
            if x in seen:
                continue
            seen.add(x)
            todo.extend(succ.get(x, []))
        return seen

    eval_reach = reach(eval_root + closure_roots)
    build_reach = reach(build_root)
    mask = sum(1 << i for i in eval_reach)
    bmask = sum(1 << i for i in build_reach)
    ops = [(f.id, k, recv, ln) for f in fns for (k, recv, ln) in f.ops]
    # mutations of atomics / once-cells: only on receivers that are known locations (a field or a captured variable)
    known_recv = set()
    for (kind, name, ty, file, line) in locations:
        known_recv.add(name.split(" ")[0].split("::")[-1].split(".")[-1])
    ops += [(f.id, "atomic", recv, ln) for f in fns for (_, recv, ln) in f.atomic_ops if recv in known_recv]
    ffi = [(f.id, callee, kind, arg, ln) for f in fns for (callee, kind, arg, ln) in f.ffi]
    scope_sites = [(f.id, ln) for f in fns for ln in f.scope_sites]
    # which locations are shared between threads
    shared_kinds = {"lazyStatic", "static", "staticMut", "rwlock", "mutex", "atomic", "unsafeCell", "onceCell", "threadLocal", "unsafeImpl"}

    L = []
    w = L.append
    w("import Dmn.Model.Concurrency")
    w("")
    w("/-!")
    w("# GENERATED by translate/shared_state.py from the sources of /repo — do not edit")
    w("")
    w("The synchronisation structure of the evaluation path (property C20): shared locations,")
    w("lock operations per function, the (over-approximating, name-based) call graph, the set of")
    w("functions reachable in the evaluation phase, and the decNumber FFI calls with their")
    w("context argument.  Functions are numbered; `fnName` gives the name of a number.")
    w("-/")
    w("")
    w("namespace Dmn.Gen.SharedState")
    w("open Dmn.Conc")
    w("")
    init_of = {
        "lazyStatic": "lazy_static: initialised once on first use (std::sync::Once), immutable afterwards",
        "static": "compile-time constant",
        "staticMut": "static mut",
        "rwlock": "written under the write lock in ModelEvaluator::new / add_invocable_* (build phase), read-locked afterwards",
        "refCell": "field of a value created per evaluation (not Sync: rustc rejects sharing it)",
    }
    locations = sorted(locations, key=lambda x: (x[3], x[4]))
    field_index = {}
    for i, (kind, name, ty, file, line) in enumerate(locations):
        if "." in name or "::" in name:
            field_index.setdefault(name.split(" ")[0].split("::")[-1].split(".")[-1], []).append(i)
    w("def locations : List Loc := [")
    for i, (kind, name, ty, file, line) in enumerate(locations):
        sh = "true" if kind in shared_kinds else "false"
        w("  ⟨.%s, %s, %s, %s, %d, %s, %s⟩%s" % (kind, lean_str(name), lean_str(re.sub(r"\s+", " ", ty)), lean_str(file), line, sh, lean_str(init_of.get(kind, "")), "," if i + 1 < len(locations) else ""))
    w("]")
    w("")
    w("def fnCount : Nat := %d" % len(fns))
    w("")
    w("/-- number → `Type::function` / `function` / `parent::{closure@line}` (file:line) -/")
    nchunks = [fns[k:k + 200] for k in range(0, len(fns), 200)]
    for ci, ch in enumerate(nchunks):
        w("def fnNames%d : List String := [" % ci)
        for i, f in enumerate(ch):
            w("  %s%s" % (lean_str("%s (%s:%d)" % (f.qname, f.file, f.line)), "," if i + 1 < len(ch) else ""))
        w("]")
    w("def fnNames : Array String := (%s).toArray" % " ++ ".join("fnNames%d" % i for i in range(len(nchunks))))
    w("")
    w("def fnName (i : Nat) : String := fnNames.getD i \"?\"")
    w("")
    w("/-- the entry point of the evaluation phase -/")
    w("def evalEntry : Nat := %d" % eval_root[0].id)
    w("/-- the entry point of the build phase -/")
    w("def buildEntry : Nat := %d" % build_root[0].id)
    w("")
    w("/-- stored closures (`move |…| …`): they run when an evaluator is called -/")
    w("def closureRoots : List Nat := [%s]" % ", ".join(str(f.id) for f in closure_roots))
    w("")
    w("/-- call edges caller → callee (by name: every function a call could denote) -/")
    es = sorted(edges)
    chunks = [es[k:k + 240] for k in range(0, len(es), 240)] or [[]]
    for ci, ch in enumerate(chunks):
        w("def edges%d : List (Nat × Nat) := [" % ci)
        for k in range(0, len(ch), 12):
            w("  " + ", ".join("(%d, %d)" % e for e in ch[k:k + 12]) + ("," if k + 12 < len(ch) else ""))
        w("]")
    w("def edgeChunks : List (List (Nat × Nat)) := [%s]" % ", ".join("edges%d" % i for i in range(len(chunks))))
    w("def edges : List (Nat × Nat) := edgeChunks.flatten")
    w("")
    w("/-- bit `i` set ⇔ function `i` is reachable from `evalEntry` or from a stored closure -/")
    w("def evalReachable : Nat := 0x%x" % mask)
    w("/-- bit `i` set ⇔ function `i` is reachable from `buildEntry` -/")
    w("def buildReachable : Nat := 0x%x" % bmask)
    w("")
    w("def ops : List Op := [")
    for i, (fid, k, recv, ln) in enumerate(ops):
        cands = field_index.get(recv, [])
        loc = cands[0] if len(cands) == 1 else 1000000
        w("  ⟨%d, .%s, %d, %d⟩%s  -- %s in %s" % (fid, k, loc, ln, "," if i + 1 < len(ops) else "", recv, fns[fid].qname))
    w("]")
    w("")
    w("def ffiCalls : List Ffi := [")
    for i, (fid, callee, kind, arg, ln) in enumerate(ffi):
        w("  ⟨%d, %s, .%s, %s, %d⟩%s" % (fid, lean_str(callee), kind, lean_str(arg), ln, "," if i + 1 < len(ffi) else ""))
    w("]")
    w("")
    w("/-- textual uses of `DEFAULT_CONTEXT` other than its definition: (is `.clone()`, line) -/")
    w("def defaultContextUses : List (Bool × Nat) := [%s]" % ", ".join("(%s, %d)" % ("true" if c else "false", ln) for c, _, ln in ctx_uses))
    w("")
    w("/-- `Scope` construction sites (function, line): a scope is made per call, never stored in a global -/")
    w("def scopeSites : List (Nat × Nat) := [%s]" % ", ".join("(%d, %d)" % s for s in scope_sites))
    w("")
    w("/-- `type X = Box<dyn Fn…>` aliases for stored evaluators: (name, line, has `+ Send + Sync`) -/")
    w("def evaluatorTypes : List (String × Nat × Bool) := [%s]" % ", ".join("(%s, %d, %s)" % (lean_str(n + " " + fl), ln, "true" if ok else "false") for n, fl, ln, ok in evaluator_bounds))
    w("")
    w("end Dmn.Gen.SharedState")
    text = "\n".join(L) + "\n"
    os.makedirs(a.out, exist_ok=True)
    out = os.path.join(a.out, "SharedState.lean")
    old = open(out).read() if os.path.exists(out) else None
    changed = old != text
    if changed:
        tmp = out + ".tmp"
        with open(tmp, "w") as f:
            f.write(text)
        os.replace(tmp, out)
    summary = {
        "translator": "shared_state.py", "files": n_files, "functions": len(fns), "closures": len([f for f in fns if f.is_closure]),
        "edges": len(edges), "eval_reachable": len(eval_reach), "build_reachable": len(build_reach),
        "lock_ops": len(ops), "write_ops_eval_reachable": len([o for o in ops if o[1] in ("write", "lock") and o[0] in eval_reach]),
        "ffi_calls": len(ffi), "ffi_shared_ctx": len([x for x in ffi if x[2] == "shared"]),
        "locations": len(locations), "captured_by_closures": len([l for l in locations if "(captured by" in l[1]]), "aliases": sorted(ALIASES), "changed": changed, "notes": notes[:10],
    }
    print(json.dumps(summary))
    return 0


if __name__ == "__main__":
    try:
        sys.exit(main())
    except SystemExit:
        raise
    except Exception as e:  # the sources no longer look as expected: keep the snapshot
        print(json.dumps({"translator": "shared_state.py", "error": repr(e), "fallback": True}))
        sys.exit(3)
