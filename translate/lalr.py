#!/usr/bin/env python3
"""translate/lalr.py — regenerates lean/Dmn/Gen/Lalr.lean from the CURRENT
/repo/feel-parser/src/lalr.rs (Bison tables extracted to Rust constants).

    translate/lalr.py --repo /repo --out lean/Dmn/Gen

Extracted: the scalar constants YY_PACT_N_INF YY_TABLE_N_INF YY_FINAL YY_LAST YY_N_TOKENS,
the tables YY_TRANSLATE YY_PACT YY_DEF_ACT YY_P_GOTO YY_DEF_GOTO YY_TABLE YY_CHECK YY_R1 YY_R2
(with their declared element types and lengths), the discriminants of `enum TokenType` and
`enum SymbolKind`, and the rule numbers that `fn reduce` dispatches on.

The last stdout line is a JSON object. Exit status 0 = regenerated (or unchanged); 1 = the
source could not be parsed (the committed snapshot is left in place and `check` records the
fallback). The file is written only when its content changed (temp file + rename).
"""
import argparse
import json
import os
import re
import sys

TABLES = ["YY_TRANSLATE", "YY_PACT", "YY_DEF_ACT", "YY_P_GOTO", "YY_DEF_GOTO", "YY_TABLE", "YY_CHECK", "YY_R1", "YY_R2"]
SCALARS = ["YY_PACT_N_INF", "YY_TABLE_N_INF", "YY_FINAL", "YY_LAST", "YY_N_TOKENS"]
RANGES = {"i8": (-128, 127), "u8": (0, 255), "i16": (-32768, 32767), "u16": (0, 65535), "usize": (0, 2 ** 64 - 1),
          "i32": (-2 ** 31, 2 ** 31 - 1)}


class Bad(Exception):
    pass


def strip_comments(src):
    src = re.sub(r"/\*.*?\*/", "", src, flags=re.S)
    return re.sub(r"//[^\n]*", "", src)


def parse(src):
    src = strip_comments(src)
    scalars, tables, types = {}, {}, {}
    for name in SCALARS:
        m = re.search(r"pub\s+const\s+%s\s*:\s*(\w+)\s*=\s*(-?\d+)\s*;" % name, src)
        if not m:
            raise Bad("constant %s not found" % name)
        scalars[name] = int(m.group(2))
        types[name] = m.group(1)
    for name in TABLES:
        m = re.search(r"pub\s+const\s+%s\s*:\s*\[\s*(\w+)\s*;\s*(\d+)\s*\]\s*=\s*\[([^\]]*)\]\s*;" % name, src)
        if not m:
            raise Bad("table %s not found" % name)
        ty, n, body = m.group(1), int(m.group(2)), m.group(3)
        vals = [int(x) for x in re.findall(r"-?\d+", body)]
        if len(vals) != n:
            raise Bad("table %s: declared %d entries, found %d" % (name, n, len(vals)))
        if ty not in RANGES:
            raise Bad("table %s: unknown element type %s" % (name, ty))
        lo, hi = RANGES[ty]
        if any(v < lo or v > hi for v in vals):
            raise Bad("table %s: entry outside %s" % (name, ty))
        tables[name] = vals
        types[name] = ty
    enums = {}
    for en in ["TokenType", "SymbolKind"]:
        m = re.search(r"pub\s+enum\s+%s\s*\{([^}]*)\}" % en, src)
        if not m:
            raise Bad("enum %s not found" % en)
        items = re.findall(r"(\w+)\s*=\s*(-?\d+)", m.group(1))
        if not items:
            raise Bad("enum %s: no discriminants" % en)
        enums[en] = [(a, int(b)) for a, b in items]
    m = re.search(r"pub\s+fn\s+reduce\s*\([^)]*\)[^{]*\{\s*match\s+rule_number\s*\{(.*?)\n\s*_\s*=>", src, flags=re.S)
    if not m:
        raise Bad("fn reduce not found")
    rules = [int(x) for x in re.findall(r"^\s*(\d+)\s*=>", m.group(1), flags=re.M)]
    return scalars, tables, types, enums, rules


def lean_list(vals, per_line=24):
    lines = []
    for i in range(0, len(vals), per_line):
        lines.append("  " + ", ".join(str(v) for v in vals[i:i + per_line]))
    return "[\n" + ",\n".join(lines) + "]"


def lr_preds(scalars, tables):
    """Witness for the LR stack invariant (Dmn/Model/LalrStack.lean): for every state the states from which
    the driver can push it — shift targets, and goto targets of the states a reduction can uncover, as the
    least fixed point over the tables.  Not trusted: `stackOk` re-checks the closure conditions in Lean;
    a witness that is wrong or empty makes the theorem `lalr_stack_ok` fail, nothing else."""
    try:
        PACT, DEFACT, TABLE, CHECK = tables["YY_PACT"], tables["YY_DEF_ACT"], tables["YY_TABLE"], tables["YY_CHECK"]
        PGOTO, DEFGOTO, R1, R2 = tables["YY_P_GOTO"], tables["YY_DEF_GOTO"], tables["YY_R1"], tables["YY_R2"]
        NT, LAST, TNINF, FINAL = scalars["YY_N_TOKENS"], scalars["YY_LAST"], scalars["YY_TABLE_N_INF"], scalars["YY_FINAL"]
        n_states = len(PACT)
        shifts = [set() for _ in range(n_states)]
        reds = [set() for _ in range(n_states)]
        for i, (t, c) in enumerate(zip(TABLE, CHECK)):
            if c < 0:
                continue
            for s in range(n_states):
                if PACT[s] + c == i:
                    if t > 0:
                        shifts[s].add(t)
                    elif t != TNINF:
                        reds[s].add(-t)
        for s in range(n_states):
            if s != FINAL and DEFACT[s] != 0:
                reds[s].add(DEFACT[s])

        def goto(u, a):
            i = PGOTO[a] + u
            if 0 <= i <= LAST and CHECK[i] == u:
                return TABLE[i]
            return DEFGOTO[a]

        preds = [[] for _ in range(n_states)]
        for s in range(n_states):
            for v in sorted(shifts[s]):
                if 0 <= v < n_states and s not in preds[v]:
                    preds[v].append(s)
        for _round in range(64):
            changed = False
            for s in range(n_states):
                for r in sorted(reds[s]):
                    if not (0 <= r < len(R1)):
                        continue
                    a = R1[r] - NT
                    if not (0 <= a < len(PGOTO)):
                        continue
                    b = [s]
                    for _ in range(max(R2[r], 0)):
                        nb = []
                        for v in b:
                            for u in preds[v]:
                                if u not in nb:
                                    nb.append(u)
                        b = nb
                    for u in b:
                        g = goto(u, a)
                        if 0 <= g < n_states and u not in preds[g]:
                            preds[g].append(u)
                            changed = True
            if not changed:
                break
        return [sorted(x) for x in preds]
    except (KeyError, IndexError, TypeError):
        return []


def render(scalars, tables, types, enums, rules):
    out = []
    out.append("/-! GENERATED by translate/lalr.py from feel-parser/src/lalr.rs — do not edit by hand.")
    out.append("Regenerated by `./check C05` on every run; the committed copy is the snapshot/fallback. -/")
    out.append("")
    out.append("namespace Dmn.Gen.Lalr")
    out.append("")
    for name in SCALARS:
        out.append("/-- `%s: %s` -/" % (name, types[name]))
        out.append("def %s : Int := %s" % (name, scalars[name] if scalars[name] >= 0 else "(%d)" % scalars[name]))
    out.append("")
    for name in TABLES:
        out.append("/-- `%s: [%s; %d]` -/" % (name, types[name], len(tables[name])))
        out.append("def %s : List Int := %s" % (name, lean_list(tables[name])))
        out.append("")
    out.append("/-- discriminants of `enum TokenType` (lalr.rs), in declaration order -/")
    out.append("def TOKEN_TYPE_CODES : List Int := %s" % lean_list([v for _, v in enums["TokenType"]]))
    out.append("")
    for en in ["TokenType", "SymbolKind"]:
        for a, b in enums[en]:
            out.append("def %s_%s : Int := %s" % (en, a, b if b >= 0 else "(%d)" % b))
    out.append("")
    out.append("/-- names of `enum TokenType`, same order (documentation / driver output only) -/")
    out.append("def TOKEN_TYPE_NAMES : List String := [\n  %s]" % ", ".join('"%s"' % a for a, _ in enums["TokenType"]))
    out.append("")
    out.append("/-- discriminants of `enum SymbolKind`: %s -/" % ", ".join("%s=%d" % (a, b) for a, b in enums["SymbolKind"]))
    out.append("def SYMBOL_KIND_CODES : List Int := %s" % lean_list([v for _, v in enums["SymbolKind"]]))
    out.append("")
    out.append("/-- rule numbers with a reduce action in `fn reduce` (all others are `Ok(())`) -/")
    out.append("def REDUCE_ACTION_RULES : List Nat := %s" % lean_list(rules))
    out.append("")
    out.append("/-- witness for the LR stack invariant: `PREDS[v]` = the states from which the driver can push state `v`")
    out.append("(computed by translate/lalr.py as a least fixed point over the tables; re-checked by `stackOk`) -/")
    preds = lr_preds(scalars, tables)
    out.append("def PREDS : List (List Int) := [\n%s]" % ",\n".join("  [%s]" % ", ".join(str(u) for u in row) for row in preds))
    out.append("")
    out.append("end Dmn.Gen.Lalr")
    return "\n".join(out) + "\n"


def main():
    ap = argparse.ArgumentParser()
    ap.add_argument("--repo", default="/repo")
    ap.add_argument("--out", required=True)
    a = ap.parse_args()
    src_path = os.path.join(a.repo, "feel-parser", "src", "lalr.rs")
    out_path = os.path.join(a.out, "Lalr.lean")
    try:
        src = open(src_path, encoding="utf-8").read()
        scalars, tables, types, enums, rules = parse(src)
        text = render(scalars, tables, types, enums, rules)
    except (OSError, Bad, ValueError) as e:
        print(json.dumps({"translator": "lalr.py", "source": src_path, "ok": False, "error": str(e),
                          "snapshot_kept": os.path.exists(out_path)}))
        return 1
    os.makedirs(a.out, exist_ok=True)
    old = open(out_path, encoding="utf-8").read() if os.path.exists(out_path) else None
    changed = old != text
    if changed:
        tmp = out_path + ".tmp.%d" % os.getpid()
        with open(tmp, "w", encoding="utf-8") as f:
            f.write(text)
        os.replace(tmp, out_path)
    print(json.dumps({"translator": "lalr.py", "source": src_path, "ok": True, "changed": changed,
                      "lengths": {k: len(v) for k, v in tables.items()}, "constants": scalars,
                      "token_types": len(enums["TokenType"]), "reduce_action_rules": len(rules)}))
    return 0


if __name__ == "__main__":
    sys.exit(main())
