#!/usr/bin/env python3
"""server_state.py — the synchronisation structure of the HTTP service around the evaluator (C20).

    translate/server_state.py --repo /repo --out lean/Dmn/Gen

`server/src/server.rs` shares one `RwLock<Workspace>` among all worker threads; the handlers that evaluate
take it for reading, the handlers that change the workspace take it for writing.  This translator scans the
crates `server` and `workspace` with the scanner of `shared_state.py` (same conventions: locations with their
kind, lock operations with their enclosing function, a name-based over-approximating call graph) and writes
`ServerState.lean`:

  * `locations` — statics, lazy_static globals, fields of interior-mutability types, `unsafe impl Send/Sync`;
  * `ops` — every `.read()` / `.write()` / `.lock()` / `.borrow_mut()` / guard-less atomic mutation with its function;
  * `guardedOps` — for each operation, whether its result is taken apart by `if let Ok(..) =` / `match` (a poisoned
    lock then ends the request with an error answer) and not by `.unwrap()` / `.expect(..)` (which would panic);
  * `edges` — call edges inside the two crates;
  * `evalEntries` — the functions named `evaluate_invocable` (the way into the evaluator);
  * `underLock` — bit mask of the functions called (transitively) by a function that performs a lock operation;
  * `reachesEval` — bit mask of the functions FROM WHICH an entry is reachable (backward closure: the Lean side
    re-checks that it contains the entries and is closed under the edges read backwards).

Python 3 standard library only.  The last line printed is a JSON object.  Exit status 0 = the table was produced.
"""
import argparse
import json
import os
import re
import sys

sys.path.insert(0, os.path.dirname(os.path.abspath(__file__)))
import shared_state as S  # noqa: E402

CRATES = ["server", "workspace"]


def main():
    ap = argparse.ArgumentParser()
    ap.add_argument("--repo", default="/repo")
    ap.add_argument("--out", required=True)
    a = ap.parse_args()
    fns, locations, externs, notes = [], [], {}, []
    codes = {}
    n_files = 0
    S.ALIASES.clear()
    srcs = []
    for crate in CRATES:
        root = os.path.join(a.repo, crate, "src")
        if not os.path.isdir(root):
            raise SystemExit("missing crate sources: %s" % root)
        for d, _, files in os.walk(root):
            if os.sep + "tests" in d[len(root):]:
                continue
            for f in sorted(files):
                if f.endswith(".rs"):
                    srcs.append((crate, os.path.join(d, f)))
    for _ in range(4):
        for _, p in srcs:
            code = S.strip_code(open(p, encoding="utf-8").read())
            for m in re.finditer(r"\btype\s+(\w+)\s*(?:<[^=;]*>)?\s*=\s*([^;]*);", code):
                k = S.sync_kind(m.group(2))
                if k is not None and m.group(1) not in S.ALIASES:
                    S.ALIASES[m.group(1)] = k
    for crate, p in sorted(srcs, key=lambda x: x[1]):
        rel = os.path.relpath(p, a.repo)
        _, code = S.scan_file(p, rel, crate, fns, locations, externs, notes)
        codes[rel] = code
        n_files += 1
    if n_files < 3 or not fns:
        raise SystemExit("too few sources scanned")
    fns.sort(key=lambda f: (f.file, f.start, f.is_closure))
    for i, f in enumerate(fns):
        f.id = i
    by_q, by_name_method, by_name_free, types = {}, {}, {}, set()
    for f in fns:
        if f.is_closure:
            continue
        by_q.setdefault((f.owner, f.name), []).append(f)
        if f.owner:
            types.add(f.owner)
            by_name_method.setdefault(f.name, []).append(f)
        else:
            by_name_free.setdefault(f.name, []).append(f)
    edges = set()
    for f in fns:
        # a closure runs inside (or is handed out by) the function that makes it: both directions are kept, so that a
        # lock operation inside a closure counts for the function and the reverse
        if f.is_closure:
            for g in fns:
                if not g.is_closure and g.file == f.file and g.start <= f.start and f.end <= g.end:
                    edges.add((g.id, f.id))
        for kind, qual, name, nargs in f.calls:
            targets = []
            if kind == "qual":
                q = qual
                if q == "Self":
                    q = f.owner.split("::")[0]
                if (q, name) in by_q:
                    targets = by_q[(q, name)]
                elif q in types:
                    targets = []
                elif q[:1].islower():
                    targets = by_name_free.get(name, [])
            elif kind == "method":
                targets = by_name_method.get(name, [])
            elif kind in ("bare", "value"):
                targets = by_name_free.get(name, [])
            for t in targets:
                if t.id == f.id:
                    continue
                if nargs is not None and t.nparams is not None:
                    want = t.nparams
                    if kind == "qual" and t.has_self:
                        want += 1
                    if kind == "method" and not t.has_self:
                        continue
                    if nargs != want:
                        continue
                edges.add((f.id, t.id))
    entries = [f for f in fns if f.name == "evaluate_invocable" and not f.is_closure]
    if not entries:
        raise SystemExit("no function evaluate_invocable in the crates server / workspace")
    pred = {}
    for x, y in edges:
        pred.setdefault(y, []).append(x)
    seen, todo = set(), [f.id for f in entries]
    while todo:
        x = todo.pop()
        if x in seen:
            continue
        seen.add(x)
        todo.extend(pred.get(x, []))
    mask = sum(1 << i for i in seen)
    known_recv = set()
    for (kind, name, ty, file, line) in locations:
        known_recv.add(name.split(" ")[0].split("::")[-1].split(".")[-1])
    ops = [(f, k, recv, ln) for f in fns for (k, recv, ln) in f.ops]
    ops += [(f, "atomic", recv, ln) for f in fns for (_, recv, ln) in f.atomic_ops if recv in known_recv]

    # the functions called, directly or through other functions, by a function that performs a lock operation
    succ = {}
    for x, y in edges:
        succ.setdefault(x, []).append(y)
    lockers = {f.id for (f, k, recv, ln) in ops}
    under, todo = set(), [y for x in lockers for y in succ.get(x, [])]
    while todo:
        x = todo.pop()
        if x in under:
            continue
        under.add(x)
        todo.extend(succ.get(x, []))
    under_mask = sum(1 << i for i in under)

    def guarded(f, ln):
        """The statement around a lock operation on line `ln`: `if let Ok(..) = X.read() {`, `match X.write() {`, or a
        `?` / `.map_err(..)?` — anything but `.unwrap()` / `.expect(` directly on the result."""
        lines = codes[f.file].split("\n")
        text = lines[ln - 1] if 0 < ln <= len(lines) else ""
        after = " ".join(lines[ln - 1:ln + 1])
        m = re.search(r"\.\s*(read|write|lock|try_lock|try_read|try_write)\s*\(\s*\)\s*(.*)", after)
        tail = m.group(2) if m else ""
        if re.match(r"\.\s*(unwrap|expect)\b", tail):
            return False
        return bool(re.search(r"\bif\s+let\s+Ok\s*\(|\bmatch\b|\bwhile\s+let\s+Ok\s*\(|\?\s*;|\.map_err\(|\.ok\(\)|\bis_ok\(\)|\bis_err\(\)", text + " " + tail))

    locations = sorted(locations, key=lambda x: (x[3], x[4]))
    field_index = {}
    for i, (kind, name, ty, file, line) in enumerate(locations):
        if "." in name or "::" in name:
            field_index.setdefault(name.split(" ")[0].split("::")[-1].split(".")[-1], []).append(i)
    shared_kinds = {"lazyStatic", "static", "staticMut", "rwlock", "mutex", "atomic", "unsafeCell", "onceCell", "threadLocal", "unsafeImpl"}
    init_of = {
        "lazyStatic": "lazy_static: initialised once on first use (std::sync::Once), immutable afterwards",
        "static": "compile-time constant",
        "staticMut": "static mut",
        "rwlock": "the workspace shared by the worker threads: write-locked by the handlers that change it, read-locked by the handlers that evaluate",
    }
    L = []
    w = L.append
    w("import Dmn.Model.Concurrency")
    w("")
    w("/-!")
    w("# GENERATED by translate/server_state.py from the sources of /repo — do not edit")
    w("")
    w("The synchronisation structure of the HTTP service (crates `server`, `workspace`; property C20): shared")
    w("locations, lock operations per function, the name-based call graph, the functions from which")
    w("`evaluate_invocable` is reachable.")
    w("-/")
    w("")
    w("namespace Dmn.Gen.ServerState")
    w("open Dmn.Conc")
    w("")
    w("def locations : List Loc := [")
    for i, (kind, name, ty, file, line) in enumerate(locations):
        sh = "true" if kind in shared_kinds else "false"
        w("  ⟨.%s, %s, %s, %s, %d, %s, %s⟩%s" % (kind, S.lean_str(name), S.lean_str(re.sub(r"\s+", " ", ty)), S.lean_str(file), line, sh, S.lean_str(init_of.get(kind, "")), "," if i + 1 < len(locations) else ""))
    w("]")
    w("")
    w("def fnCount : Nat := %d" % len(fns))
    w("")
    w("def fnNames : Array String := #[")
    for i, f in enumerate(fns):
        w("  %s%s" % (S.lean_str("%s (%s:%d)" % (f.qname, f.file, f.line)), "," if i + 1 < len(fns) else ""))
    w("]")
    w("")
    w("def fnName (i : Nat) : String := fnNames.getD i \"?\"")
    w("")
    w("/-- the ways into the evaluator: the functions named `evaluate_invocable` -/")
    w("def evalEntries : List Nat := [%s]" % ", ".join(str(f.id) for f in entries))
    w("")
    w("/-- call edges caller → callee (by name; a function → the closures written in it) -/")
    es = sorted(edges)
    w("def edges : List (Nat × Nat) := [")
    for k in range(0, len(es), 12):
        w("  " + ", ".join("(%d, %d)" % e for e in es[k:k + 12]) + ("," if k + 12 < len(es) else ""))
    w("]")
    w("")
    w("/-- bit `i` set ⇔ an entry is reachable from function `i` -/")
    w("def reachesEval : Nat := 0x%x" % mask)
    w("")
    w("/-- bit `i` set ⇔ function `i` is called, directly or through other functions, by a function that performs a lock")
    w("operation: what runs while a lock of this table may be held (forward closure; the Lean side checks closedness) -/")
    w("def underLock : Nat := 0x%x" % under_mask)
    w("")
    w("def ops : List Op := [")
    for i, (f, k, recv, ln) in enumerate(ops):
        cands = field_index.get(recv, [])
        loc = cands[0] if len(cands) == 1 else 1000000
        w("  ⟨%d, .%s, %d, %d⟩%s  -- %s in %s" % (f.id, k, loc, ln, "," if i + 1 < len(ops) else "", recv, f.qname))
    w("]")
    w("")
    w("/-- for each operation of `ops`: its `Result` is taken apart (`if let Ok`, `match`, `?`), never unwrapped -/")
    w("def guardedOps : List Bool := [%s]" % ", ".join("true" if guarded(f, ln) else "false" for (f, k, recv, ln) in ops))
    w("")
    w("end Dmn.Gen.ServerState")
    text = "\n".join(L) + "\n"
    os.makedirs(a.out, exist_ok=True)
    out = os.path.join(a.out, "ServerState.lean")
    old = open(out).read() if os.path.exists(out) else None
    changed = old != text
    if changed:
        tmp = out + ".tmp"
        with open(tmp, "w") as f:
            f.write(text)
        os.replace(tmp, out)
    print(json.dumps({
        "translator": "server_state.py", "files": n_files, "functions": len(fns), "edges": len(edges), "entries": [f.qname for f in entries],
        "reaches_eval": len(seen), "lock_ops": len(ops), "read_ops": len([o for o in ops if o[1] == "read"]), "write_ops": len([o for o in ops if o[1] == "write"]),
        "write_ops_reaching_eval": len([o for o in ops if o[1] != "read" and o[0].id in seen]), "unguarded_ops": len([o for o in ops if not guarded(o[0], o[3])]),
        "under_lock": len(under), "lockers_under_lock": len(lockers & under), "locations": len(locations), "changed": changed, "notes": notes[:10],
    }))
    return 0


if __name__ == "__main__":
    try:
        sys.exit(main())
    except SystemExit:
        raise
    except Exception as e:  # the sources no longer look as expected: keep the snapshot
        print(json.dumps({"translator": "server_state.py", "error": repr(e), "fallback": True}))
        sys.exit(3)
