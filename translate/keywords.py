#!/usr/bin/env python3
"""Regenerates lean/Dmn/Gen/Keywords.lean: the arms of `Lexer::read_next_token`
(feel-parser/src/lexer.rs) in the order in which the `match` tries them — which characters of the
look-ahead buffer an arm demands, which conditions stand in its guard, and what its body does when it
is one of the simple bodies (advance the cursor, clear a flag, hand out a token without text).

What is read (independent of the names of locals and bound pattern variables and of the layout):
  * the `match` over the value of `self.read_input()` (directly or through a `let`) in `fn read_next_token`;
  * an arm `[p0, p1, …] if guard => body`: `pK` a character literal, the constant `WS`, `_`, `_name`
    (wild card) or an identifier (the cell is bound to it).  The literals must form a prefix; white
    space literals that end the prefix become the condition "cell K is a blank";
  * a guard is a conjunction of: `self.<flag>` / `!self.<flag>` for the four flags of the lexer;
    `f(x)` with `x` a bound cell and `f` a free function `fn f(c: char) -> bool` whose body is
    `matches!(c, 'a' | 'b' | WS …)` (the set is written out), `c.is_ascii_digit()` (digit) or the
    function `is_name_start_char` (name start); `self.m(K)` with `m` a method whose body is
    `self.is_next_character(&[…], offset)`, or `self.is_next_character(&[…], K)` itself;
  * a body `{ self.position += N; self.<flag> = false; Ok((TokenType::T, TokenValue::V)) }` (in any
    order of the statements before the result; `TokenValue::Boolean(b)` is the only payload); a body
    that calls `self.consume_name()` is the name arm; the pattern of twelve `WS` is the end-of-input
    arm; every other body is `other` (numbers, strings, the final `_`).
Anything else is an error (exit 1): `check` then keeps the committed table and says so.
"""
import argparse, json, os, re, sys

ap = argparse.ArgumentParser()
ap.add_argument("--repo", default="/repo")
ap.add_argument("--out", required=True)
a = ap.parse_args()
src = open(os.path.join(a.repo, "feel-parser/src/lexer.rs")).read()


class Bad(Exception):
    pass


LIT = re.compile(r"'(\\u\{[0-9A-Fa-f]+\}|\\.|[^'\\])'")
STR = re.compile(r'"(\\.|[^"\\])*"')
FLAGS = {"unary_tests": "unaryTests", "between": "between", "type_name": "typeName", "till_in": "tillIn"}


def strip_comments(s):
    """remove // and /* */ comments outside of character and string literals"""
    out, i = [], 0
    while i < len(s):
        m = LIT.match(s, i) or STR.match(s, i)
        if m:
            out.append(m.group(0))
            i = m.end()
        elif s.startswith("//", i):
            j = s.find("\n", i)
            i = len(s) if j < 0 else j
        elif s.startswith("/*", i):
            j = s.find("*/", i + 2)
            i = len(s) if j < 0 else j + 2
        else:
            out.append(s[i])
            i += 1
    return "".join(out)


src = strip_comments(src)


def consts():
    d = {}
    for m in re.finditer(r"\bconst\s+(\w+)\s*:\s*char\s*=\s*('(?:\\u\{[0-9A-Fa-f]+\}|\\.|[^'\\])')\s*;", src):
        d[m.group(1)] = char_lit(m.group(2), {})
    for m in re.finditer(r"\bconst\s+(\w+)\s*:\s*usize\s*=\s*(\d+)\s*;", src):
        d[m.group(1)] = int(m.group(2))
    return d


def char_lit(s, cs):
    s = s.strip()
    if s in cs:
        return cs[s]
    m = re.fullmatch(r"'\\u\{([0-9A-Fa-f]+)\}'", s)
    if m:
        return int(m.group(1), 16)
    m = re.fullmatch(r"'\\(.)'", s)
    if m:
        return {"n": 10, "r": 13, "t": 9, "'": 39, "\\": 92, "0": 0, '"': 34}[m.group(1)]
    m = re.fullmatch(r"'(.)'", s, re.S)
    if m:
        return ord(m.group(1))
    raise Bad("character literal not understood: %r" % s)


CONSTS = consts()


def close_of(s, i):
    """index just after the bracket that closes the one at s[i]"""
    pairs = {"(": ")", "[": "]", "{": "}"}
    stack = [pairs[s[i]]]
    i += 1
    while stack:
        if i >= len(s):
            raise Bad("unbalanced bracket")
        m = LIT.match(s, i) or STR.match(s, i)
        if m:
            i = m.end()
            continue
        ch = s[i]
        if ch in pairs:
            stack.append(pairs[ch])
        elif ch in ")]}":
            if ch != stack.pop():
                raise Bad("unbalanced bracket")
        i += 1
    return i


def split_top(s, sep):
    parts, cur, i, depth = [], "", 0, 0
    while i < len(s):
        m = LIT.match(s, i) or STR.match(s, i)
        if m:
            cur += m.group(0)
            i = m.end()
            continue
        ch = s[i]
        if ch in "([{":
            depth += 1
        elif ch in ")]}":
            depth -= 1
        if depth == 0 and s.startswith(sep, i):
            parts.append(cur)
            cur = ""
            i += len(sep)
            continue
        cur += ch
        i += 1
    parts.append(cur)
    return parts


def fn_src(name, method):
    """(parameter names, body) of `fn name`"""
    m = re.search(r"\bfn\s+%s\s*\(" % re.escape(name), src)
    if not m:
        raise Bad("function %s not found" % name)
    pe = close_of(src, m.end() - 1)
    params = src[m.end() : pe - 1]
    b = src.find("{", pe)
    if b < 0:
        raise Bad("no body for %s" % name)
    e = close_of(src, b)
    names = []
    for p in split_top(params, ","):
        p = p.strip()
        if not p or re.fullmatch(r"&?\s*(mut\s+)?self", p):
            continue
        mm = re.match(r"(?:mut\s+)?(\w+)\s*:", p)
        if not mm:
            raise Bad("parameter not understood in %s: %r" % (name, p))
        names.append(mm.group(1))
    return names, src[b + 1 : e - 1].strip()


_class = {}


def char_class(fname):
    """('set', [code points]) | ('digit',) | ('nameStart',) for a free function char -> bool"""
    if fname in _class:
        return _class[fname]
    if fname == "is_name_start_char":
        fn_src(fname, False)
        r = ("nameStart",)
    else:
        params, body = fn_src(fname, False)
        if len(params) != 1:
            raise Bad("%s: one parameter expected" % fname)
        p = params[0]
        body = " ".join(body.rstrip(";").split())
        m = re.fullmatch(r"matches!\s*\(\s*%s\s*,(.*)\)" % re.escape(p), body)
        if m:
            cs = []
            for alt in split_top(m.group(1), "|"):
                alt = alt.strip()
                if not alt:
                    continue
                if ".." in alt:
                    raise Bad("%s: a range in a separator set" % fname)
                cs.append(char_lit(alt, CONSTS))
            r = ("set", sorted(set(cs)))
        elif re.fullmatch(r"%s\s*\.\s*is_ascii_digit\s*\(\s*\)" % re.escape(p), body):
            r = ("digit",)
        else:
            raise Bad("class function %s not understood: %r" % (fname, body))
    _class[fname] = r
    return r


def char_array(s):
    s = s.strip()
    m = re.fullmatch(r"&\s*\[(.*)\]", s, re.S)
    if not m:
        raise Bad("character array not understood: %r" % s)
    return [char_lit(x, CONSTS) for x in split_top(m.group(1), ",") if x.strip()]


def nat(s):
    s = s.strip()
    if s in CONSTS:
        return CONSTS[s]
    if not re.fullmatch(r"\d+", s):
        raise Bad("number expected: %r" % s)
    return int(s)


def next_char_call(expr, subst):
    """`self.is_next_character(&[..], off)` -> (chars, off); `subst` maps parameter names to numbers"""
    m = re.fullmatch(r"self\s*\.\s*is_next_character\s*\((.*)\)", expr.strip(), re.S)
    if not m:
        return None
    args = split_top(m.group(1), ",")
    args = [x for x in args if x.strip()]
    if len(args) != 2:
        raise Bad("is_next_character: two arguments expected")
    off = args[1].strip()
    off = subst[off] if off in subst else nat(off)
    return sorted(set(char_array(args[0]))), off


def guard_atoms(g, bound):
    conds = []
    for t in split_top(g, "&&"):
        t = " ".join(t.split())
        if not t:
            continue
        m = re.fullmatch(r"(!?)\s*self\s*\.\s*(\w+)", t)
        if m and m.group(2) in FLAGS:
            conds.append("flag .%s %s" % (FLAGS[m.group(2)], "false" if m.group(1) else "true"))
            continue
        m = re.fullmatch(r"(\w+)\s*\(\s*(\w+)\s*\)", t)
        if m and m.group(2) in bound:
            c = char_class(m.group(1))
            i = bound[m.group(2)]
            if c[0] == "set":
                conds.append("cellIn %d [%s]" % (i, ", ".join(map(str, c[1]))))
            elif c[0] == "digit":
                conds.append("cellDigit %d" % i)
            else:
                conds.append("cellNameStart %d" % i)
            continue
        r = next_char_call(t, {})
        if r:
            conds.append("next [%s] %d" % (", ".join(map(str, r[0])), r[1]))
            continue
        m = re.fullmatch(r"self\s*\.\s*(\w+)\s*\((.*)\)", t)
        if m:
            params, body = fn_src(m.group(1), True)
            if len(params) != 1:
                raise Bad("separator method %s: one parameter expected" % m.group(1))
            body = body.rstrip(";").strip()
            body = re.sub(r"^return\b", "", body).strip()
            r = next_char_call(body, {params[0]: nat(m.group(2))})
            if not r:
                raise Bad("separator method %s not understood: %r" % (m.group(1), body))
            conds.append("next [%s] %d" % (", ".join(map(str, r[0])), r[1]))
            continue
        raise Bad("guard not understood: %r" % t)
    return conds


def body_of(b):
    b = b.strip()
    if re.search(r"\bself\s*\.\s*consume_name\s*\(", b):
        return "name"
    inner = b
    if b.startswith("{"):
        inner = b[1 : close_of(b, 0) - 1]
    stmts = [" ".join(s.split()) for s in split_top(inner, ";")]
    stmts = [s for s in stmts if s]
    if not stmts:
        return "other"
    adv, clears = 0, []
    for s in stmts[:-1]:
        m = re.fullmatch(r"self\s*\.\s*position\s*\+=\s*(\w+)", s)
        if m:
            adv += nat(m.group(1))
            continue
        m = re.fullmatch(r"self\s*\.\s*(\w+)\s*=\s*false", s)
        if m and m.group(1) in FLAGS:
            clears.append(FLAGS[m.group(1)])
            continue
        return "other"
    m = re.fullmatch(r"(?:return\s+)?Ok\s*\(\s*\(\s*TokenType\s*::\s*(\w+)\s*,\s*TokenValue\s*::\s*(\w+)\s*(?:\(\s*(true|false)\s*\))?\s*,?\s*\)\s*,?\s*\)", stmts[-1])
    if not m:
        return "other"
    tt, tv, pl = m.group(1), m.group(2), m.group(3)
    if pl is None and tv != tt:
        return "other"
    if pl is not None and tv != "Boolean":
        return "other"
    return "token Dmn.Gen.Lalr.TokenType_%s %s %d [%s]" % (tt, "none" if pl is None else "(some %s)" % pl, adv, ", ".join(".%s" % c for c in clears))


def arms():
    params, body = fn_src("read_next_token", True)
    m = re.search(r"\bmatch\s+", body)
    if not m:
        raise Bad("no match in read_next_token")
    # the scrutinee must be the value of self.read_input(), directly or through one `let`
    b = body.find("{", m.end())
    scrut = body[m.end() : b].strip()
    if not re.fullmatch(r"self\s*\.\s*read_input\s*\(\s*\)", scrut):
        if not re.fullmatch(r"\w+", scrut) or not re.search(r"\blet\s+(?:mut\s+)?%s\s*(?::[^=]*)?=\s*self\s*\.\s*read_input\s*\(\s*\)\s*;" % re.escape(scrut), body[: m.start()]):
            raise Bad("the match of read_next_token is not over self.read_input()")
    e = close_of(body, b)
    s = body[b + 1 : e - 1]
    out, i = [], 0
    buf = CONSTS.get("BUF_SIZE")
    if buf is None:
        raise Bad("BUF_SIZE not found")
    while True:
        while i < len(s) and (s[i].isspace() or s[i] == ","):
            i += 1
        if i >= len(s):
            break
        if s[i] == "_" and re.match(r"_\s*=>", s[i:]):
            pat = None
            j = i + 1
        elif s[i] == "[":
            j = close_of(s, i)
            pat = [x.strip() for x in split_top(s[i + 1 : j - 1], ",") if x.strip()]
        else:
            raise Bad("arm not understood at: %r" % s[i : i + 40])
        k = s.find("=>", j)
        # `=>` cannot occur inside a guard's literals here except in character literals: search outside them
        jj = j
        while True:
            mm = LIT.match(s, jj) or STR.match(s, jj)
            if mm:
                jj = mm.end()
                continue
            if s.startswith("=>", jj):
                k = jj
                break
            jj += 1
            if jj >= len(s):
                raise Bad("arm without =>")
        guard = s[j:k].strip()
        if guard:
            mg = re.match(r"if\b(.*)", guard, re.S)
            if not mg:
                raise Bad("guard not understood: %r" % guard)
            guard = mg.group(1)
        j = k + 2
        while s[j].isspace():
            j += 1
        if s[j] == "{":
            be = close_of(s, j)
            bodytxt = s[j:be]
        else:
            # expression up to the comma at depth 0
            be, depth = j, 0
            while be < len(s):
                mm = LIT.match(s, be) or STR.match(s, be)
                if mm:
                    be = mm.end()
                    continue
                if s[be] in "([{":
                    depth += 1
                elif s[be] in ")]}":
                    depth -= 1
                elif s[be] == "," and depth == 0:
                    break
                be += 1
            bodytxt = s[j:be]
        i = be
        if pat is None:
            out.append(([], [], "other"))
            continue
        if len(pat) != buf:
            raise Bad("a pattern of %d cells (BUF_SIZE is %d)" % (len(pat), buf))
        word, bound, conds, in_prefix = [], {}, [], True
        for idx, p in enumerate(pat):
            if re.fullmatch(r"_\w*", p):
                in_prefix = False
            elif p in CONSTS or p.startswith("'"):
                if not in_prefix:
                    raise Bad("a literal after a wild card in a pattern")
                word.append(char_lit(p, CONSTS))
            elif re.fullmatch(r"[A-Za-z]\w*(\s*@\s*_)?", p):
                in_prefix = False
                bound[p.split("@")[0].strip()] = idx
            else:
                raise Bad("pattern cell not understood: %r" % p)
        if len(word) == buf and all(c == 32 for c in word):
            out.append(([], ["allBlank"], "eof" if re.search(r"TokenType\s*::\s*YyEof", bodytxt) else "other"))
            continue
        n = len(word)
        while n > 0 and word[n - 1] == 32:
            n -= 1
        conds += ["cellIn %d [32]" % k2 for k2 in range(n, len(word))]
        word = word[:n]
        conds += guard_atoms(guard, bound)
        out.append((word, conds, body_of(bodytxt)))
    return buf, out


try:
    BUF, ARMS = arms()
    if not any(b == "name" for _, _, b in ARMS):
        raise Bad("no arm calls consume_name")
except (Bad, ValueError, IndexError, KeyError) as e:
    print(json.dumps({"translator": "keywords", "error": str(e)}))
    sys.exit(1)


def show(word):
    return "".join(chr(c) for c in word)


lines = []
for w, cs, b in ARMS:
    lines.append("  ⟨[%s], [%s], .%s⟩" % (", ".join(map(str, w)), ", ".join("." + c for c in cs), b))
text = """import Dmn.Gen.Lalr

/-! GENERATED by translate/keywords.py from feel-parser/src/lexer.rs — do not edit. -/

namespace Dmn.Gen.Keywords

/-- the flags of `struct Lexer` -/
inductive Flag where
  | unaryTests | between | typeName | tillIn
  deriving DecidableEq, Repr

/-- A condition of an arm of `read_next_token` beyond the literal characters of its pattern: a flag of
the lexer has the value `v`; the cell `i` of the look-ahead buffer is one of the characters `cs` (a
white space literal after the word, or a guard `f(ch)` over a `matches!` set); cell `i` is a digit / a
name start character; `is_next_character(cs, off)`; all cells are blank. -/
inductive Cond where
  | flag (f : Flag) (v : Bool)
  | cellIn (i : Nat) (cs : List Nat)
  | cellDigit (i : Nat)
  | cellNameStart (i : Nat)
  | next (cs : List Nat) (off : Nat)
  | allBlank
  deriving DecidableEq, Repr

/-- What the body of an arm does: `token tt payload n clear` — `position += n`, the flags `clear` are
set to `false`, the token of type `tt` (a `Boolean` carries `payload`); `name` — `consume_name()` and
`type_name = false`; `eof` — the end-of-input token; `other` — a body the translator does not
summarise (numbers, strings, the last arm). -/
inductive Body where
  | token (tt : Int) (payload : Option Bool) (advance : Nat) (clear : List Flag)
  | name
  | eof
  | other
  deriving DecidableEq, Repr

/-- One arm: the literal characters its pattern begins with (trailing blanks are conditions), the
conditions, the body. -/
structure Arm where
  word : List Nat
  conds : List Cond
  body : Body
  deriving DecidableEq, Repr

/-- `BUF_SIZE` -/
def bufSize : Nat := %d

/-- the arms of the `match` of `read_next_token`, in order -/
def arms : List Arm := [
%s]

end Dmn.Gen.Keywords
""" % (BUF, ",\n".join(lines))

os.makedirs(a.out, exist_ok=True)
path = os.path.join(a.out, "Keywords.lean")
old = open(path).read() if os.path.exists(path) else None
if old != text:
    with open(path, "w") as f:
        f.write(text)
kws = [show(w) for w, cs, b in ARMS if w and (chr(w[0]).isalpha())]
print(json.dumps({"translator": "keywords", "arms": len(ARMS), "keywords": kws, "changed": old != text}))
