#!/usr/bin/env python3
"""Regenerates lean/Dmn/Gen/EvaluatorState.lean: where the code that BUILDS evaluators (the closures that are stored
and then evaluated again and again) mentions a type or a macro with interior mutability or a lazily / once
initialised value.  A prepared evaluator is meant to be a pure function of (syntax tree, scope): a `Cell`, `RefCell`,
`OnceLock`, `OnceCell`, `Lazy…`, `Once`, atomic, `Mutex`, `RwLock`, `Condvar`, `static mut`, `thread_local!` or
`lazy_static!` inside the builders is where a value computed in one evaluation can survive into the next
(`evaluators_hold_no_state`, Props/C13.lean, states what the list is at the time the theorems were proved).

Scanned: every `*.rs` under feel-evaluator/src and model-evaluator/src/builders, and feel/src/evaluator.rs,
feel/src/function.rs (the evaluator type and the function value), without `tests` directories, `tests.rs` files and
`#[cfg(test)]` modules.  The reading is lexical: comments, string and char literals are masked; `use` declarations are
skipped (an import is not a use); what is reported is (file, innermost enclosing `fn`, word), sorted and without
repetitions — independent of formatting, of the names of locals and of the order of items in a file.

    translate/evaluator_state.py --repo /repo --out lean/Dmn/Gen

Python 3 standard library only; the last line printed is a JSON object; exit status 0 = the table was produced."""
import argparse, json, os, re, sys

ap = argparse.ArgumentParser()
ap.add_argument("--repo", default="/repo")
ap.add_argument("--out", required=True)
a = ap.parse_args()

WORDS = r"\b(RwLock|Mutex|RefCell|Cell|UnsafeCell|OnceCell|OnceLock|LazyLock|LazyCell|Lazy|Once|Condvar|Barrier|Atomic[A-Z]\w*|thread_local|lazy_static)\b"


def mask(src):
    """comments, string literals (plain, raw, byte) and char literals replaced by blanks; newlines kept"""
    out = []
    i, n = 0, len(src)
    while i < n:
        c = src[i]
        if src.startswith("//", i):
            j = src.find("\n", i)
            j = n if j < 0 else j
            out.append(" " * (j - i)); i = j
        elif src.startswith("/*", i):
            depth, j = 1, i + 2
            while j < n and depth:
                if src.startswith("/*", j):
                    depth += 1; j += 2
                elif src.startswith("*/", j):
                    depth -= 1; j += 2
                else:
                    j += 1
            out.append(re.sub(r"[^\n]", " ", src[i:j])); i = j
        elif c == "r" and re.match(r'r#*"', src[i:]) and (i == 0 or not (src[i - 1].isalnum() or src[i - 1] == "_")):
            m = re.match(r'r(#*)"', src[i:])
            close = '"' + m.group(1)
            j = src.find(close, i + len(m.group(0)))
            j = n if j < 0 else j + len(close)
            out.append(re.sub(r"[^\n]", " ", src[i:j])); i = j
        elif c == '"':
            j = i + 1
            while j < n and src[j] != '"':
                j += 2 if src[j] == "\\" else 1
            out.append(re.sub(r"[^\n]", " ", src[i:j + 1])); i = j + 1
        elif c == "'":
            # a char literal ('x', '\n', '\u{1F64F}') or a lifetime ('a)
            m = re.match(r"'(\\u\{[0-9a-fA-F]+\}|\\.|[^\\'])'", src[i:])
            if m:
                out.append(" " * len(m.group(0))); i += len(m.group(0))
            else:
                out.append(c); i += 1
        else:
            out.append(c); i += 1
    return "".join(out)


def matching_brace(text, open_at):
    depth = 0
    for j in range(open_at, len(text)):
        if text[j] == "{":
            depth += 1
        elif text[j] == "}":
            depth -= 1
            if depth == 0:
                return j
    return len(text) - 1


def drop_test_modules(masked):
    """`#[cfg(test)] mod x { … }` blanked out"""
    out = masked
    for m in re.finditer(r"#\s*\[\s*cfg\s*\(\s*test\s*\)\s*\]\s*(pub\s+)?mod\s+\w+\s*\{", masked):
        b = m.end() - 1
        e = matching_brace(masked, b)
        out = out[:m.start()] + re.sub(r"[^\n]", " ", out[m.start():e + 1]) + out[e + 1:]
    return out


def drop_use_declarations(masked):
    return re.sub(r"^([ \t]*(pub(\s*\([^)]*\))?\s+)?use\s[^;]*;)", lambda m: re.sub(r"[^\n]", " ", m.group(1)), masked, flags=re.M)


def functions(masked):
    """(begin, end, name) of the body of every `fn`"""
    out = []
    for m in re.finditer(r"\bfn\s+(\w+)", masked):
        # the body opens at the first `{` after the signature; a declaration without a body ends with `;` first
        j = m.end()
        depth = 0
        while j < len(masked):
            ch = masked[j]
            if ch in "(<[":
                depth += 1
            elif ch in ")>]":
                # `->` is not a closing bracket
                if not (ch == ">" and masked[j - 1] == "-"):
                    depth -= 1
            elif ch == ";" and depth <= 0:
                j = -1
                break
            elif ch == "{" and depth <= 0:
                break
            j += 1
        if j < 0 or j >= len(masked):
            continue
        out.append((j, matching_brace(masked, j), m.group(1)))
    return out


def files(repo):
    found = []
    for top in ("feel-evaluator/src", "model-evaluator/src/builders"):
        for root, dirs, names in os.walk(os.path.join(repo, top)):
            dirs[:] = sorted(d for d in dirs if d != "tests")
            for f in sorted(names):
                if f.endswith(".rs") and f != "tests.rs":
                    found.append(os.path.relpath(os.path.join(root, f), repo))
    for f in ("feel/src/evaluator.rs", "feel/src/function.rs"):
        if os.path.exists(os.path.join(repo, f)):
            found.append(f)
    return sorted(set(found))


errors = []
rows = set()
scanned = files(a.repo)
if len(scanned) < 10:
    errors.append("fewer source files than expected: %d" % len(scanned))
for rel in scanned:
    try:
        src = open(os.path.join(a.repo, rel), encoding="utf-8").read()
    except Exception as e:
        errors.append("%s: %s" % (rel, e))
        continue
    masked = drop_use_declarations(drop_test_modules(mask(src)))
    fns = functions(masked)
    for m in list(re.finditer(WORDS, masked)) + list(re.finditer(r"\bstatic\s+mut\b", masked)):
        word = "static mut" if m.group(0).startswith("static") else m.group(1)
        inside = [(e - b, name) for (b, e, name) in fns if b <= m.start() <= e]
        fn = min(inside)[1] if inside else ""
        rows.add((rel, fn, word))
rows = sorted(rows)


def q(s):
    return '"%s"' % s.replace("\\", "\\\\").replace('"', "'")


body = "/-! GENERATED by translate/evaluator_state.py from feel-evaluator/src, model-evaluator/src/builders, feel/src/evaluator.rs and function.rs — do not edit. -/\n\nnamespace Dmn.Gen\n\n"
body += "/-- (file, innermost enclosing fn, word): every mention of a type or macro with interior mutability or lazy / once\ninitialisation in the code that builds evaluators -/\n"
body += "def evaluatorState : List (String × String × String) := [" + ",\n  ".join("(%s, %s, %s)" % (q(f), q(fn), q(w)) for (f, fn, w) in rows) + "]\n\n"
body += "/-- the number of source files scanned -/\ndef evaluatorStateFiles : Nat := %d\n\nend Dmn.Gen\n" % len(scanned)
if errors:
    print(json.dumps({"translator": "evaluator_state", "errors": errors}))
    sys.exit(1)
path = os.path.join(a.out, "EvaluatorState.lean")
old = open(path).read() if os.path.exists(path) else None
if old != body:
    tmp = path + ".tmp"
    open(tmp, "w").write(body)
    os.replace(tmp, path)
print(json.dumps({"translator": "evaluator_state", "files": len(scanned), "mentions": [list(r) for r in rows], "changed": old != body}))
