#!/usr/bin/env python3
"""translate/parser_scope.py — regenerates lean/Dmn/Gen/ParserScope.lean from the CURRENT
working tree of /repo:

    translate/parser_scope.py --repo /repo --out lean/Dmn/Gen

What is extracted (property C13, parser half: "a successful parse leaves the parsing scope as it
found it"):

(G) feel-grammar/src/feel.y — every grammar rule in bison's numbering: a mid-rule action
    `{/* name */}` becomes an empty nonterminal `$@k` with its own rule, numbered just before the rule
    it occurs in (bison does exactly this); the tables count from 1: rule 1 is `$accept: feel $end`, entry 0 is
    bison's filler (`YY_R1[0] = YY_R2[0] = 0`).  For each rule: the symbol
    number of its left-hand side, the symbol numbers of its right-hand side, and the name of its
    (final) action.  Symbol numbers: `$end error $undefined`, then the tokens in the order of their
    first declaration, then the nonterminals in the order in which they first stand on a left-hand side
    (`$@k` when its action is met).
(D) feel-parser/src/lalr.rs — what the driver executes: `YY_R1` (left-hand side of each rule), `YY_R2`
    (length of each right-hand side), `YY_N_TOKENS`, and the rule-number → `action_<name>` dispatch of
    `fn reduce`.  Lean re-checks that (G) and (D) describe the same table (`driver_table_agrees`).
(P) feel-parser/src/parser.rs, feel-parser/src/lexer.rs — for each `fn action_<name>` the sequence of
    effects on the parsing scope, in textual order, over {push, pop, setEntry, maySetEntry, unknown}:
    `self.scope.push(..)` / `.pop()` / `.set_entry(..)` and the lexer methods that do the same
    (`self.yy_lexer.push_to_scope()` …, resolved through lexer.rs, transitively).  A statement counts as
    straight-line when it stands at the top level of the function body as a statement of its own and no
    `return` stands before it; `?` before it is fine (the action then fails and the parse with it).
    Otherwise (under `if`/`if let`/`match`/a loop/a closure, after a `return`, inside a larger
    expression) a `set_entry` becomes `maySetEntry` ("zero or more entries written into the top context")
    and a push or pop becomes `unknown`; any other use of the scope that is not a known read-only method
    (`get_entry`, `flatten_keys`, `peek`, `search_deep`, `to_string`, `jsonify`) is `unknown` as well.
    Functions of parser.rs that are not reduce actions (`parse`, `new`, the `parse_*` entry points) and
    macros must not touch the scope at all: those that do are listed in `otherScopeWrites`.
    `feel/src/scope.rs`: the bodies of `Scope::push`, `pop`, `set_entry` are compared with the ones the
    Lean model of the effects mirrors (`scopeApiAsModelled`).
(W) a witness, not trusted: for each nonterminal a pair (need, out) — entered with at least `need`
    contexts of its own on top of the caller's, every derivation of it leaves `out - need` more — computed
    here as a least fixed point and re-checked rule by rule in Lean (`rule_actions_balanced`).

python3 stdlib only.  The last stdout line is a JSON object.  Exit 0 = regenerated (or unchanged);
exit 1 = a source could not be read/understood, the committed snapshot is left in place (`check` records
the fallback).  Facts that are merely *wrong* (tables disagree, an action became `unknown`) do not stop
the translation: they are written out and make the Lean obligations fail, which names them.
The file is written only when its content changed (temp file + rename).  `--self-check` runs the
translator's own tests on small synthetic sources.
"""
import argparse
import json
import os
import re
import sys


class Bad(Exception):
    pass


# ------------------------------------------------------------------------------------------------
# Rust source handling
# ------------------------------------------------------------------------------------------------

def mask_rust(src):
    """Replaces comments and the contents of string / char literals by blanks (same length, newlines
    kept), so that braces, parentheses and identifiers can be matched textually."""
    out = list(src)
    i, n = 0, len(src)

    def blank(a, b):
        for k in range(a, b):
            if out[k] != "\n":
                out[k] = " "

    while i < n:
        c = src[i]
        if src.startswith("//", i):
            j = src.find("\n", i)
            j = n if j < 0 else j
            blank(i, j)
            i = j
        elif src.startswith("/*", i):
            depth, j = 1, i + 2
            while j < n and depth > 0:
                if src.startswith("/*", j):
                    depth += 1
                    j += 2
                elif src.startswith("*/", j):
                    depth -= 1
                    j += 2
                else:
                    j += 1
            blank(i, j)
            i = j
        elif c == '"' or (c == "r" and re.match(r'r#*"', src[i:i + 12]) and (i == 0 or not (src[i - 1].isalnum() or src[i - 1] == "_"))) \
                or (c == "b" and src[i:i + 2] == 'b"'):
            if c == "r":
                m = re.match(r'r(#*)"', src[i:])
                hashes = m.group(1)
                start = i + len(m.group(0))
                end = src.find('"' + hashes, start)
                end = n if end < 0 else end
                blank(start, end)
                i = end + 1 + len(hashes)
            else:
                j = i + (2 if c == "b" else 1)
                start = j
                while j < n and src[j] != '"':
                    j += 2 if src[j] == "\\" else 1
                blank(start, min(j, n))
                i = j + 1
        elif c == "'":
            # char literal or lifetime
            m = re.match(r"'(\\.[^']*|[^'\\])'", src[i:i + 12])
            if m:
                blank(i + 1, i + len(m.group(0)) - 1)
                i += len(m.group(0))
            else:
                i += 1
        else:
            i += 1
    return "".join(out)


def match_close(text, i, open_c="{", close_c="}"):
    """Index of the bracket closing the one at text[i]."""
    depth = 0
    for j in range(i, len(text)):
        if text[j] == open_c:
            depth += 1
        elif text[j] == close_c:
            depth -= 1
            if depth == 0:
                return j
    raise Bad("unbalanced %s at offset %d" % (open_c, i))


def rust_functions(masked):
    """All `fn name(...) ... { body }` of a masked source: name -> (is_pub, signature, body, has_self)."""
    fns = {}
    for m in re.finditer(r"(\bpub(?:\s*\([^)]*\))?\s+)?\bfn\s+([A-Za-z_]\w*)\s*(<[^>(]*>)?\s*\(", masked):
        name = m.group(2)
        p_open = m.end() - 1
        p_close = match_close(masked, p_open, "(", ")")
        k = p_close + 1
        # up to the body `{` or a `;` (trait method declaration)
        while k < len(masked) and masked[k] not in "{;":
            k += 1
        if k >= len(masked) or masked[k] == ";":
            continue
        b_close = match_close(masked, k)
        sig = masked[p_open:p_close + 1]
        if name in fns:
            raise Bad("function %s defined twice in one file" % name)
        fns[name] = {"pub": bool(m.group(1)), "sig": sig, "body": masked[k + 1:b_close], "self": bool(re.search(r"\bself\b", sig)),
                     "span": (m.start(), b_close + 1)}
    return fns


READ_ONLY = {"get_entry", "flatten_keys", "peek", "search_deep", "to_string", "jsonify"}
DIRECT = {"push": "push", "pop": "pop", "set_entry": "setEntry", "insert_null": "setEntry"}


def weaken(e):
    return {"setEntry": "maySetEntry", "maySetEntry": "maySetEntry"}.get(e, "unknown")


def body_effects(body, resolve_self, resolve_lexer):
    """Effect sequence of one function body (masked text).
    resolve_self(name) / resolve_lexer(name) -> effect list of a callee (or None when unknown callee)."""
    occ = []  # (pos, end_of_call_name, kind, name)
    for m in re.finditer(r"\bself\s*\.\s*scope\b", body):
        m2 = re.match(r"\s*\.\s*([A-Za-z_]\w*)\s*\(", body[m.end():])
        if m2:
            occ.append((m.start(), "scope", m2.group(1)))
        else:
            occ.append((m.start(), "leak", ""))
    if resolve_lexer is not None:
        for m in re.finditer(r"\bself\s*\.\s*yy_lexer\s*\.\s*([A-Za-z_]\w*)\s*\(", body):
            occ.append((m.start(), "lexer", m.group(1)))
        for m in re.finditer(r"\bself\s*\.\s*yy_lexer\b(?!\s*\.\s*[A-Za-z_]\w*\s*\()", body):
            occ.append((m.start(), "lexerleak", ""))
    for m in re.finditer(r"\b(?:self\s*\.|Self\s*::)\s*([A-Za-z_]\w*)\s*\(", body):
        occ.append((m.start(), "self", m.group(1)))
    occ.sort()
    effects = []
    for pos, kind, name in occ:
        if kind == "scope":
            if name in READ_ONLY:
                continue
            callee = [DIRECT[name]] if name in DIRECT else ["unknown"]
        elif kind in ("leak", "lexerleak"):
            if kind == "lexerleak":
                continue  # handing the lexer itself on is not a scope effect of this statement
            callee = ["unknown"]
        elif kind == "lexer":
            callee = resolve_lexer(name)
            if callee is None:
                callee = []  # method of another type (Vec, Option …) — cannot reach the scope
        else:
            callee = resolve_self(name)
            if callee is None:
                callee = []
        if not callee:
            continue
        if straight_line(body, pos):
            effects.extend(callee)
        else:
            effects.extend(weaken(e) for e in callee)
    return effects


def straight_line(body, pos):
    """The call at body[pos] is a statement of its own at the top level of the body, and no `return`
    stands before it."""
    depth = 0
    for ch in body[:pos]:
        if ch in "{([":
            depth += 1
        elif ch in "})]":
            depth -= 1
    if depth != 0:
        return False
    if re.search(r"\breturn\b", body[:pos]):
        return False
    # the statement: from the previous `;` / `}` / start to the next `;`
    a = max(body.rfind(";", 0, pos), body.rfind("}", 0, pos)) + 1
    b = body.find(";", pos)
    if b < 0:
        return False
    stmt = " ".join(body[a:b].split())
    m = re.fullmatch(r"(?:let\s+_?\w*\s*=\s*)?self\s*\.\s*(?:scope\s*\.\s*|yy_lexer\s*\.\s*)?[A-Za-z_]\w*\s*\((.*)\)", stmt)
    if not m:
        return False
    args = m.group(1)
    if re.search(r"\bself\b|\?|\breturn\b|\|", args):
        return False
    return True


def analyse_sources(parser_src, lexer_src):
    pm, lm = mask_rust(parser_src), mask_rust(lexer_src)
    pf, lf = rust_functions(pm), rust_functions(lm)
    memo = {}

    def eff(which, name, stack=()):
        key = (which, name)
        if key in memo:
            return memo[key]
        table = pf if which == "p" else lf
        if name not in table:
            return None
        if key in stack:
            return ["unknown"]
        st = stack + (key,)
        if which == "p":
            r = body_effects(table[name]["body"], lambda n: eff("p", n, st), lambda n: eff("l", n, st))
        else:
            r = body_effects(table[name]["body"], lambda n: eff("l", n, st), None)
        memo[key] = r
        return r

    actions = {}
    for name in pf:
        if name.startswith("action_"):
            actions[name[len("action_"):]] = eff("p", name)
    other = []
    for name, f in sorted(pf.items()):
        if name.startswith("action_"):
            continue
        e = eff("p", name)
        # a private helper method is judged where it is called (its effects are inlined into the callers)
        entry = f["pub"] or not f["self"] or name in ("parse", "new")
        if e and entry:
            other.append("parser.rs fn %s: %s" % (name, " ".join(e)))
        # the scope handed on to something that is not the lexer / parser constructor
        for m in re.finditer(r"(?<![\w.])scope\b", f["body"]):
            pre = f["body"][:m.start()].rstrip()
            post = f["body"][m.end():].lstrip()
            ok = pre.endswith("Lexer::new(") or pre.endswith("Parser::new(") or post.startswith(":") \
                or (pre.endswith(("{", ",")) and post.startswith((",", "}")))
            if not ok:
                other.append("parser.rs fn %s: the scope is handed on" % name)
    for name, f in sorted(lf.items()):
        # lexer functions with an effect must be reachable from reduce actions only: the others that the
        # driver loop calls are found through `parse` above; here: the token loop itself
        if name in ("next_token", "new"):
            e = eff("l", name)
            if e:
                other.append("lexer.rs fn %s: %s" % (name, " ".join(e)))
    for m in re.finditer(r"\bmacro_rules!\s*([A-Za-z_]\w*)\s*\{", pm):
        close = match_close(pm, m.end() - 1)
        if re.search(r"\bscope\b|\byy_lexer\b", pm[m.end():close]):
            other.append("parser.rs macro %s mentions the scope" % m.group(1))
    lexer_methods = {n: eff("l", n) for n in lf if eff("l", n)}
    # entry points: pub fn parse_*(scope, ..) -> Parser::new(scope, TokenType::X, ..)
    entries = []
    for name, f in pf.items():
        if name.startswith("parse_") and f["pub"]:
            m = re.search(r"Parser\s*::\s*new\s*\(\s*&?\s*\w+\s*,\s*TokenType\s*::\s*(\w+)", f["body"])
            if m:
                entries.append((name, m.group(1)))
            else:
                m = re.search(r"\b(parse_\w+)\s*\(", f["body"])
                entries.append((name, "via:" + m.group(1) if m else "?"))
    # resolve `via:`
    d = dict(entries)
    res = []
    for name, tok in entries:
        seen = set()
        while tok.startswith("via:") and tok[4:] in d and tok not in seen:
            seen.add(tok)
            tok = d[tok[4:]]
        res.append((name, tok))
    return actions, sorted(set(other)), lexer_methods, sorted(res)


I_ = r"[A-Za-z_]\w*"
# the bodies as the Lean model of the effects mirrors them, written as patterns over the text with all white space
# removed: local names, the choice between `if let` and a two-armed `match`, and a trailing `;` carry no meaning
SCOPE_API = {
    "push": [r"self\.contexts\.borrow_mut\(\)\.push\((%s)\);?" % I_],
    "pop": [r"self\.contexts\.borrow_mut\(\)\.pop\(\);?"],
    "set_entry": [
        r"ifletSome\((?P<c>%s)\)=self\.contexts\.borrow_mut\(\)\.last_mut\(\)\{(?P=c)\.set_entry\((%s),(%s)\);?\}" % (I_, I_, I_),
        r"matchself\.contexts\.borrow_mut\(\)\.last_mut\(\)\{Some\((?P<c>%s)\)=>\{?(?P=c)\.set_entry\((%s),(%s)\);?\}?,?(None|_)=>(\{\}|\(\)),?\}" % (I_, I_, I_),
    ],
}


def scope_api_ok(scope_src):
    fns = rust_functions(mask_rust(scope_src))
    bad = []
    for name, wants in SCOPE_API.items():
        got = "".join(fns[name]["body"].split()) if name in fns else None
        if got is None or not any(re.fullmatch(w, got) for w in wants):
            bad.append(name)
    return bad


# ------------------------------------------------------------------------------------------------
# lalr.rs
# ------------------------------------------------------------------------------------------------

def camel(tok):
    return "".join(p.capitalize() for p in tok.lower().split("_"))


def parse_lalr(src):
    m = re.search(r"pub\s+fn\s+reduce\s*\([^)]*\)[^{]*\{\s*match\s+rule_number\s*\{(.*?)\n\s*_\s*=>", src, flags=re.S)
    if not m:
        raise Bad("fn reduce not found in lalr.rs")
    reduce, comments = {}, {}
    for line in m.group(1).split("\n"):
        if not line.strip():
            continue
        mm = re.match(r"\s*(\d+)\s*=>\s*reduce_actions\s*\.\s*action_(\w+)\s*\(\s*\)\s*,\s*(?://\s*(.*))?$", line)
        if not mm:
            if re.match(r"\s*//", line):
                continue
            raise Bad("cannot read an arm of fn reduce: " + line.strip())
        r = int(mm.group(1))
        if r in reduce:
            raise Bad("rule %d dispatched twice in fn reduce" % r)
        reduce[r] = mm.group(2)
        if mm.group(3):
            comments[r] = mm.group(3).strip()
    plain = re.sub(r"/\*.*?\*/", "", src, flags=re.S)
    plain = re.sub(r"//[^\n]*", "", plain)
    tables = {}
    for name in ["YY_R1", "YY_R2", "YY_TRANSLATE"]:
        mm = re.search(r"pub\s+const\s+%s\s*:\s*\[\s*(\w+)\s*;\s*(\d+)\s*\]\s*=\s*\[([^\]]*)\]\s*;" % name, plain)
        if not mm:
            raise Bad("table %s not found" % name)
        vals = [int(x) for x in re.findall(r"-?\d+", mm.group(3))]
        if len(vals) != int(mm.group(2)):
            raise Bad("table %s: declared %s entries, found %d" % (name, mm.group(2), len(vals)))
        if any(v < 0 for v in vals):
            raise Bad("table %s has a negative entry" % name)
        tables[name] = vals
    mm = re.search(r"pub\s+const\s+YY_N_TOKENS\s*:\s*\w+\s*=\s*(\d+)\s*;", plain)
    if not mm:
        raise Bad("YY_N_TOKENS not found")
    ntokens = int(mm.group(1))
    mm = re.search(r"pub\s+enum\s+TokenType\s*\{([^}]*)\}", plain)
    if not mm:
        raise Bad("enum TokenType not found")
    token_types = {a: int(b) for a, b in re.findall(r"(\w+)\s*=\s*(-?\d+)", mm.group(1))}
    return reduce, comments, tables, ntokens, token_types


# ------------------------------------------------------------------------------------------------
# feel.y
# ------------------------------------------------------------------------------------------------

def strip_c_comments_outside_actions(text):
    out, i, depth = [], 0, 0
    while i < len(text):
        c = text[i]
        if c == "{":
            depth += 1
        elif c == "}":
            depth -= 1
        if depth == 0 and text.startswith("/*", i):
            j = text.find("*/", i + 2)
            if j < 0:
                break
            i = j + 2
            continue
        out.append(c)
        i += 1
    return "".join(out)


def parse_grammar(text):
    """-> tokens (declaration order), rules in bison numbering [(lhs, [rhs symbols], action or None)],
    nonterminals in bison numbering, start symbol."""
    text = strip_c_comments_outside_actions(text)
    parts = re.split(r"^%%[ \t]*$", text, flags=re.M)
    if len(parts) < 2:
        raise Bad("no %% separator in feel.y")
    decls, body = parts[0], parts[1]
    tokens, start = [], None
    for line in decls.split("\n"):
        m = re.match(r"\s*%(token|precedence|left|right|nonassoc)\s+(.*)$", line)
        if m:
            for s in m.group(2).split():
                if re.fullmatch(r"<[^>]*>", s):
                    continue
                if not re.fullmatch(r"[A-Z_][A-Z_0-9]*", s):
                    raise Bad("cannot read declaration line: " + line.strip())
                if s not in tokens:
                    tokens.append(s)
        m = re.match(r"\s*%start\s+(\w+)", line)
        if m:
            start = m.group(1)
    if not tokens:
        raise Bad("no token declarations in feel.y")
    # ---- tokenise the rules section
    toks = []
    i = 0
    while i < len(body):
        c = body[i]
        if c.isspace():
            i += 1
        elif c == "{":
            j = body.find("}", i)
            if j < 0:
                raise Bad("unterminated action")
            inner = body[i + 1:j]
            m = re.fullmatch(r"\s*/\*\s*([a-z_0-9]+)\s*\*/\s*", inner)
            if not m:
                raise Bad("action is not of the form {/* name */}: {%s}" % inner.strip()[:60])
            toks.append(("act", m.group(1)))
            i = j + 1
        elif c in ":|;":
            toks.append((c, c))
            i += 1
        elif c == "%":
            m = re.match(r"%prec\s+([A-Za-z_]\w*)|%empty", body[i:])
            if not m:
                raise Bad("unknown directive in the rules: " + body[i:i + 20])
            i += len(m.group(0))
        else:
            m = re.match(r"[A-Za-z_]\w*", body[i:])
            if not m:
                raise Bad("cannot read the rules at: " + body[i:i + 20])
            toks.append(("id", m.group(0)))
            i += len(m.group(0))
    # ---- rules
    rules = []      # (lhs, rhs, action)
    nonterms = ["$accept"]
    dummy = [0]
    k = 0
    first_lhs = None
    while k < len(toks):
        if toks[k][0] != "id" or k + 1 >= len(toks) or toks[k + 1][0] != ":":
            raise Bad("expected `name:` in the rules, found %r" % (toks[k],))
        lhs = toks[k][1]
        if lhs in tokens:
            raise Bad("token %s on a left-hand side" % lhs)
        if lhs not in nonterms:
            nonterms.append(lhs)
        if first_lhs is None:
            first_lhs = lhs
        k += 2
        while True:
            # one alternative: up to `|` or `;`
            items = []
            while k < len(toks) and toks[k][0] not in "|;":
                if toks[k][0] == ":":
                    raise Bad("missing `;` before %s" % items[-1][1] if items else "stray `:`")
                items.append(toks[k])
                k += 1
            if k >= len(toks):
                raise Bad("rules of %s are not closed by `;`" % lhs)
            action = None
            if items and items[-1][0] == "act":
                action = items[-1][1]
                items = items[:-1]
            rhs = []
            for kind, val in items:
                if kind == "act":
                    dummy[0] += 1
                    d = "$@%d" % dummy[0]
                    nonterms.append(d)
                    rules.append((d, [], val))
                    rhs.append(d)
                else:
                    rhs.append(val)
            rules.append((lhs, rhs, action))
            sep = toks[k][0]
            k += 1
            if sep == ";":
                break
    start = start or first_lhs
    # the tables of the driver count from 1: rule 1 is `$accept: feel $end`, entry 0 is bison's filler
    # (`YY_R1[0] = 0`, `YY_R2[0] = 0`)
    rules.insert(0, ("$accept", [start, "$end"], None))
    rules.insert(0, ("$end", [], None))
    used = {s for _, rhs, _ in rules for s in rhs}
    for s in sorted(used):
        if s not in tokens and s not in nonterms and s != "$end":
            raise Bad("symbol %s is neither a token nor defined by a rule" % s)
    return tokens, rules, nonterms, start


# ------------------------------------------------------------------------------------------------
# witness: (need, out) per nonterminal
# ------------------------------------------------------------------------------------------------

def eff_net(effs):
    n = 0
    for e in effs:
        if e == "push":
            n += 1
        elif e == "pop":
            n -= 1
    return n


def summaries(rules, nonterms, is_nt, rule_eff):
    """Least (need, net) such that every rule checks; best effort (Lean re-checks)."""
    net = {a: None for a in nonterms}
    for _ in range(len(nonterms) + 2):
        changed = False
        for r, (lhs, rhs, _) in enumerate(rules):
            if lhs not in net or net[lhs] is not None:
                continue
            tot, known = 0, True
            for s in rhs:
                if is_nt(s):
                    if net[s] is None:
                        known = False
                        break
                    tot += net[s]
            if known:
                net[lhs] = tot + eff_net(rule_eff[r])
                changed = True
        if not changed:
            break
    for a in nonterms:
        if net[a] is None:
            net[a] = 0
    need = {a: 0 for a in nonterms}
    for _ in range(4 * len(nonterms) + 8):
        changed = False
        for r, (lhs, rhs, _) in enumerate(rules):
            if lhs not in need:
                continue
            c, req = 0, 0
            for s in rhs:
                if is_nt(s):
                    req = max(req, need[s] - c)
                    c += net[s]
            for e in rule_eff[r]:
                if e == "push":
                    c += 1
                elif e == "pop":
                    req = max(req, 1 - c)
                    c -= 1
                elif e in ("setEntry", "maySetEntry"):
                    req = max(req, 1 - c)
            if req > need[lhs]:
                need[lhs] = req
                changed = True
        if not changed:
            break
    return {a: (need[a], max(need[a] + net[a], 0)) for a in nonterms}


# ------------------------------------------------------------------------------------------------
# rendering
# ------------------------------------------------------------------------------------------------

def lean_str(s):
    return '"' + s.replace("\\", "\\\\").replace('"', '\\"') + '"'


def wrap(items, per_line=16, indent="  "):
    lines = []
    for i in range(0, len(items), per_line):
        lines.append(indent + ", ".join(items[i:i + per_line]))
    return "[\n" + ",\n".join(lines) + "]" if items else "[]"


def translate(feel_y, lalr_rs, parser_rs, lexer_rs, scope_rs):
    tokens, rules, nonterms, start = parse_grammar(feel_y)
    reduce, comments, tables, ntokens, token_types = parse_lalr(lalr_rs)
    actions, other, lexer_methods, entries = analyse_sources(parser_rs, lexer_rs)
    api_bad = scope_api_ok(scope_rs)
    symbols = ["$end", "error", "$undefined"] + tokens + nonterms
    num = {s: i for i, s in enumerate(symbols)}
    n_terms = 3 + len(tokens)

    def is_nt(s):
        return num[s] >= n_terms

    names = sorted(set(actions) | set(a for _, _, a in rules if a) | set(reduce.values()))
    aidx = {a: i for i, a in enumerate(names)}
    action_eff = [actions.get(a, ["unknown"]) for a in names]
    # the effects the DRIVER executes when it reduces rule r (fn reduce), the table the theorem is about
    rule_eff = []
    for r in range(len(rules)):
        a = reduce.get(r)
        rule_eff.append(list(actions.get(a, ["unknown"])) if a is not None else [])
    summ = summaries(rules, nonterms, is_nt, rule_eff)
    # ---- self cross-check (reported; Lean re-checks the same facts)
    problems = []
    if n_terms != ntokens:
        problems.append("feel.y declares %d terminal symbols, YY_N_TOKENS = %d" % (n_terms, ntokens))
    if len(rules) != len(tables["YY_R1"]) or len(rules) != len(tables["YY_R2"]):
        problems.append("feel.y has %d rules (with mid-rule actions), YY_R1/YY_R2 have %d/%d" % (len(rules), len(tables["YY_R1"]), len(tables["YY_R2"])))
    for r, (lhs, rhs, act) in enumerate(rules):
        if r < len(tables["YY_R1"]) and tables["YY_R1"][r] != num[lhs]:
            problems.append("rule %d: left-hand side %s = %d, YY_R1 = %d" % (r, lhs, num[lhs], tables["YY_R1"][r]))
        if r < len(tables["YY_R2"]) and tables["YY_R2"][r] != len(rhs):
            problems.append("rule %d: %d symbols, YY_R2 = %d" % (r, len(rhs), tables["YY_R2"][r]))
        if reduce.get(r) != act:
            problems.append("rule %d: feel.y names action %s, fn reduce calls %s" % (r, act, reduce.get(r)))
        if r in comments:
            want = "%s: %s" % (lhs, " ".join(rhs) if rhs else "%empty")
            if " ".join(comments[r].split()) != want:
                problems.append("rule %d: fn reduce documents `%s`, feel.y gives `%s`" % (r, comments[r], want))
    for r in reduce:
        if r >= len(rules):
            problems.append("fn reduce dispatches rule %d, which feel.y does not have" % r)
    for t in tokens:
        d = token_types.get(camel(t))
        if d is None:
            if t not in ("PREC_NEG",):
                problems.append("token %s has no TokenType" % t)
        elif not (0 <= d < len(tables["YY_TRANSLATE"])) or tables["YY_TRANSLATE"][d] != num[t]:
            problems.append("token %s: symbol %d in feel.y, YY_TRANSLATE gives %s" % (t, num[t], tables["YY_TRANSLATE"][d] if 0 <= d < len(tables["YY_TRANSLATE"]) else "?"))
    entry_rows = []
    for fn, tt in entries:
        tok = next((t for t in tokens if camel(t) == tt), None)
        entry_rows.append((fn, tt, num[tok] if tok else 0))
        if tok is None:
            problems.append("entry point %s: start token %s is not a token of feel.y" % (fn, tt))

    L = []
    L.append("/-! GENERATED by translate/parser_scope.py from feel-grammar/src/feel.y, feel-parser/src/lalr.rs,")
    L.append("feel-parser/src/parser.rs, feel-parser/src/lexer.rs, feel/src/scope.rs — do not edit by hand.")
    L.append("Regenerated by `./check C13` on every run; the committed copy is the snapshot/fallback.")
    L.append("")
    L.append("The grammar of the FEEL parser in bison's rule numbering (mid-rule actions are the empty")
    L.append("nonterminals `$@k`), the reduce action the driver calls for each rule, and what each reduce action")
    L.append("does to the parsing scope. -/")
    L.append("")
    L.append("namespace Dmn.Gen.ParserScope")
    L.append("")
    L.append("/-- Effect of one statement of a reduce action on the parsing scope: `Scope::push` of a fresh context,")
    L.append("`Scope::pop`, `Scope::set_entry` into the top context; `maySetEntry`: zero or more `set_entry` (the")
    L.append("statement stands under a condition or in a loop); `unknown`: the translator cannot tell. -/")
    L.append("inductive Eff where")
    L.append("  | push | pop | setEntry | maySetEntry | unknown")
    L.append("  deriving DecidableEq, Repr, Inhabited")
    L.append("")
    L.append("/-- A grammar rule: symbol number of the left-hand side, symbol numbers of the right-hand side, index")
    L.append("(into `actionNames`) of the action written after it in feel.y. -/")
    L.append("structure Rule where")
    L.append("  lhs : Nat")
    L.append("  rhs : List Nat")
    L.append("  act : Option Nat")
    L.append("  deriving DecidableEq, Repr, Inhabited")
    L.append("")
    L.append("/-- number of terminal symbols of feel.y (`$end error $undefined` and the declared tokens) -/")
    L.append("def nTerminals : Nat := %d" % n_terms)
    L.append("")
    L.append("/-- symbol names by symbol number (documentation only) -/")
    L.append("def symbolNames : List String := " + wrap([lean_str(s) for s in symbols], 8))
    L.append("")
    L.append("/-- names of the reduce actions (`fn action_<name>`), the index is the action number -/")
    L.append("def actionNames : List String := " + wrap([lean_str(s) for s in names], 6))
    L.append("")
    L.append("/-- (P) scope effects of each reduce action, in textual order (parser.rs; lexer methods resolved through lexer.rs) -/")
    L.append("def actionEffects : List (List Eff) := [")
    rows = []
    for i, a in enumerate(names):
        rows.append("  /- %3d %s -/ [%s]" % (i, a, ", ".join("." + e for e in action_eff[i])))
    L.append(",\n".join(rows))
    L.append("]")
    L.append("")
    L.append("/-- (G) the rules of feel.y in bison's numbering -/")
    L.append("def grammar : List Rule := [")
    rows = []
    for r, (lhs, rhs, act) in enumerate(rules):
        rows.append("  /- %3d %s: %s -/ ⟨%d, [%s], %s⟩" % (
            r, lhs, " ".join(rhs) if rhs else "%empty", num[lhs], ", ".join(str(num[s]) for s in rhs),
            "some %d" % aidx[act] if act else "none"))
    L.append(",\n".join(rows))
    L.append("]")
    L.append("")
    L.append("/-- (D) `YY_N_TOKENS` of lalr.rs -/")
    L.append("def drvNTokens : Nat := %d" % ntokens)
    L.append("/-- (D) `YY_R1` of lalr.rs: symbol number of the left-hand side of each rule -/")
    L.append("def drvR1 : List Nat := " + wrap([str(v) for v in tables["YY_R1"]], 24))
    L.append("/-- (D) `YY_R2` of lalr.rs: number of right-hand side symbols of each rule -/")
    L.append("def drvR2 : List Nat := " + wrap([str(v) for v in tables["YY_R2"]], 24))
    L.append("/-- (D) `fn reduce` of lalr.rs: the action called for each rule number (`none`: `Ok(())`) -/")
    n_rules = max(len(rules), len(tables["YY_R1"]), (max(reduce) + 1) if reduce else 0)
    L.append("def drvReduce : List (Option Nat) := " + wrap(
        ["some %d" % aidx[reduce[r]] if r in reduce else "none" for r in range(n_rules)], 12))
    L.append("")
    L.append("/-- (W) witness, re-checked by `rule_actions_balanced`: for each nonterminal (index = symbol number −")
    L.append("`nTerminals`) the pair (need, out): entered with at least `need` contexts of the parse's own on the scope,")
    L.append("every derivation leaves `out` where it found `need`. -/")
    L.append("def summary : List (Nat × Nat) := [")
    rows = []
    for a in nonterms:
        rows.append("  /- %s -/ (%d, %d)" % (a, summ[a][0], summ[a][1]))
    L.append(",\n".join(rows))
    L.append("]")
    L.append("")
    L.append("/-- symbol number of the start symbol `%s` -/" % start)
    L.append("def startSymbol : Nat := %d" % num[start])
    L.append("")
    L.append("/-- the public entry points of parser.rs and the pseudo token that selects their sub-grammar")
    L.append("(function, `TokenType`, symbol number) -/")
    L.append("def entryPoints : List (String × String × Nat) := [")
    L.append(",\n".join("  (%s, %s, %d)" % (lean_str(a), lean_str(b), c) for a, b, c in entry_rows))
    L.append("]")
    L.append("")
    L.append("/-- the symbol numbers of `entryPoints` -/")
    L.append("def entryTokens : List Nat := [%s]" % ", ".join(str(c) for _, _, c in entry_rows))
    L.append("")
    L.append("/-- code outside the reduce actions (driver loop, constructors, entry points, macros, the lexer's token")
    L.append("loop) that touches the parsing scope — must be empty -/")
    L.append("def otherScopeWrites : List String := " + wrap([lean_str(s) for s in other], 1))
    L.append("")
    L.append("/-- `Scope::push`, `Scope::pop`, `Scope::set_entry` (feel/src/scope.rs) still read: push onto the end of")
    L.append("the context stack, pop from its end, write into the last context if there is one%s -/" % (
        "" if not api_bad else " — CHANGED: " + ", ".join(api_bad)))
    L.append("def scopeApiAsModelled : Bool := %s" % ("true" if not api_bad else "false"))
    L.append("")
    L.append("end Dmn.Gen.ParserScope")
    L.append("")
    info = {
        "rules": len(rules), "mid_rule_actions": sum(1 for l, _, _ in rules if l.startswith("$@")),
        "terminals": n_terms, "nonterminals": len(nonterms), "actions": len(names),
        "scope_actions": {a: action_eff[aidx[a]] for a in names if action_eff[aidx[a]]},
        "lexer_scope_methods": lexer_methods, "entry_points": {a: b for a, b, _ in entry_rows},
        "other_scope_writes": other, "scope_api_changed": api_bad, "cross_check_problems": problems[:20],
        "summary_nontrivial": {a: list(summ[a]) for a in nonterms if summ[a] != (0, 0)},
    }
    return "\n".join(L), info


# ------------------------------------------------------------------------------------------------
# self check
# ------------------------------------------------------------------------------------------------

def self_check():
    y = """%token A
%token B
%left C
%%
s: A {/* open */} t {/* close */}
  | B
  ;
t: t C t {/* bin */} | {/* begin */} B {/* set */} ;
%%
"""
    tokens, rules, nonterms, start = parse_grammar(y)
    assert tokens == ["A", "B", "C"], tokens
    assert nonterms == ["$accept", "s", "$@1", "t", "$@2"], nonterms
    assert rules == [("$end", [], None), ("$accept", ["s", "$end"], None), ("$@1", [], "open"), ("s", ["A", "$@1", "t"], "close"), ("s", ["B"], None),
                     ("t", ["t", "C", "t"], "bin"), ("$@2", [], "begin"), ("t", ["$@2", "B"], "set")], rules
    p = """
impl X { fn action_open(&mut self) -> R { t!(self, "{"); self.scope.push(C::default()); Ok(()) }
  fn action_close(&mut self) -> R { let a = self.st.pop().ok_or_else(e)?; self.yy_lexer.pop_it(); Ok(()) }
  fn action_set(&mut self) -> R { if let T::N(n) = &self.v[0] { self.scope.set_entry(n, v!()); } Ok(()) }
  fn action_condpop(&mut self) -> R { if self.x { self.scope.pop(); } Ok(()) }
  fn action_late(&mut self) -> R { if self.x { return Ok(()); } self.scope.pop(); Ok(()) }
  fn action_leak(&mut self) -> R { other(self.scope); Ok(()) }
  fn action_read(&mut self) -> R { let k = self.scope.flatten_keys(); /* self.scope.pop(); */ Ok(()) }
  fn action_expr(&mut self) -> R { let k = self.x && self.scope.pop().is_some(); Ok(()) }
  fn action_helper(&mut self) -> R { self.help(); Ok(()) }
  fn help(&mut self) { self.scope.push(C::default()); self.scope.set_entry(a, b); }
  pub fn parse(&mut self) -> R { loop { self.yy_lexer.next_token()?; } }
}
"""
    lx = """
impl L { pub fn pop_it(&mut self) { self.scope.pop(); }
  pub fn next_token(&mut self) -> R { let k = self.scope.flatten_keys(); self.inner() }
  fn inner(&mut self) -> R { Ok(()) } }
"""
    actions, other, lexm, entries = analyse_sources(p, lx)
    assert actions["open"] == ["push"], actions
    assert actions["close"] == ["pop"], actions
    assert actions["set"] == ["maySetEntry"], actions
    assert actions["condpop"] == ["unknown"], actions
    assert actions["late"] == ["unknown"], actions
    assert actions["leak"] == ["unknown"], actions
    assert actions["read"] == [], actions
    assert actions["expr"] == ["unknown"], actions
    assert actions["helper"] == ["push", "setEntry"], actions
    assert other == [], other
    _, other2, _, _ = analyse_sources(p, lx.replace("self.inner()", "self.pop_it(); self.inner()"))
    assert any("next_token" in o for o in other2) and any("fn parse" in o for o in other2), other2
    assert mask_rust('a "x{y" \'{\' b // }\n c') == 'a "   " \' \' b     \n c'
    return True


# ------------------------------------------------------------------------------------------------

def main():
    ap = argparse.ArgumentParser()
    ap.add_argument("--repo", default="/repo")
    ap.add_argument("--out")
    ap.add_argument("--self-check", action="store_true")
    a = ap.parse_args()
    if a.self_check:
        self_check()
        print(json.dumps({"translator": "parser_scope.py", "self_check": True}))
        return 0
    if not a.out:
        ap.error("--out is required")
    paths = {
        "feel_y": os.path.join(a.repo, "feel-grammar", "src", "feel.y"),
        "lalr_rs": os.path.join(a.repo, "feel-parser", "src", "lalr.rs"),
        "parser_rs": os.path.join(a.repo, "feel-parser", "src", "parser.rs"),
        "lexer_rs": os.path.join(a.repo, "feel-parser", "src", "lexer.rs"),
        "scope_rs": os.path.join(a.repo, "feel", "src", "scope.rs"),
    }
    out_path = os.path.join(a.out, "ParserScope.lean")
    try:
        self_check()
        srcs = {k: open(p, encoding="utf-8").read() for k, p in paths.items()}
        text, info = translate(**srcs)
    except (OSError, Bad, ValueError, KeyError, IndexError, AssertionError) as e:
        print(json.dumps({"translator": "parser_scope.py", "ok": False, "error": "%s: %s" % (type(e).__name__, e),
                          "snapshot_kept": os.path.exists(out_path)}))
        return 1
    os.makedirs(a.out, exist_ok=True)
    old = open(out_path, encoding="utf-8").read() if os.path.exists(out_path) else None
    changed = old != text
    if changed:
        tmp = out_path + ".tmp.%d" % os.getpid()
        with open(tmp, "w", encoding="utf-8") as f:
            f.write(text)
        os.replace(tmp, out_path)
    res = {"translator": "parser_scope.py", "ok": True, "changed": changed, "sources": sorted(paths.values())}
    res.update(info)
    print(json.dumps(res))
    return 0


if __name__ == "__main__":
    sys.exit(main())
