#!/usr/bin/env python3
"""Regenerates lean/Dmn/Gen/EvalSources.lean: the few facts about the *text* of feel-evaluator/src/builders.rs and
iterations.rs on which the theorems about name resolution of a callee and about `partial` rest
(`evaluator_sources_as_modelled`, Props/C01.lean):

* build_name: the order in which the closure consults its sources (scope.get_entry, Bif::from_str, null);
* build_function_invocation_positional / _named: the callee evaluator is `build_evaluator(lhs)` and nothing in the
  function looks at the callee node or at `Bif::from_str` itself; the callee is evaluated before the arguments; the
  arms of the dispatch on the callee value;
* ForExpressionEvaluator::evaluate: the top-level statements of the closure handed to FeelIterator::run, in order
  (a statement of another shape - an `if` around one of them, say - is recorded as `other: …`), and the name bound.

The reading is textual and conservative (comments and string literals masked, brace matching); what is not
recognised is recorded as such, so that the Lean statement fails rather than passes by accident."""
import argparse, json, os, re, sys

ap = argparse.ArgumentParser()
ap.add_argument("--repo", default="/repo")
ap.add_argument("--out", required=True)
a = ap.parse_args()


def mask(src):
    """comments and string / char literals replaced by blanks of the same length"""
    out = []
    i, n = 0, len(src)
    while i < n:
        c = src[i]
        if src.startswith("//", i):
            j = src.find("\n", i)
            j = n if j < 0 else j
            out.append(" " * (j - i)); i = j
        elif src.startswith("/*", i):
            j = src.find("*/", i + 2)
            j = n if j < 0 else j + 2
            out.append(re.sub(r"[^\n]", " ", src[i:j])); i = j
        elif c == '"':
            j = i + 1
            while j < n and src[j] != '"':
                j += 2 if src[j] == "\\" else 1
            out.append('"' + " " * (j - i - 1) + '"'); i = j + 1
        else:
            out.append(c); i += 1
    return "".join(out)


def block_after(masked, start):
    """(begin, end) of the brace block that opens at or after `start`"""
    b = masked.find("{", start)
    if b < 0:
        return None
    depth = 0
    for j in range(b, len(masked)):
        if masked[j] == "{":
            depth += 1
        elif masked[j] == "}":
            depth -= 1
            if depth == 0:
                return (b, j)
    return None


def fn_body(src, masked, signature_re):
    m = re.search(signature_re, masked)
    if not m:
        return None
    blk = block_after(masked, m.end())
    if not blk:
        return None
    return src[blk[0] + 1:blk[1]], masked[blk[0] + 1:blk[1]]


def top_statements(masked_body):
    """top-level statements of a block (split at `;` and at the end of a brace block, depth 0)"""
    out, cur, depth = [], [], 0
    for ch in masked_body:
        cur.append(ch)
        if ch in "{([":
            depth += 1
        elif ch in "})]":
            depth -= 1
            if depth == 0 and ch == "}":
                out.append("".join(cur).strip()); cur = []
        elif ch == ";" and depth == 0:
            out.append("".join(cur).strip()); cur = []
    rest = "".join(cur).strip()
    if rest:
        out.append(rest)
    return [s for s in out if s and s != ";"]


errors = []
builders = open(os.path.join(a.repo, "feel-evaluator/src/builders.rs")).read()
mb = mask(builders)
iterations = open(os.path.join(a.repo, "feel-evaluator/src/iterations.rs")).read()
mi = mask(iterations)

# ---- build_name
name_sources = []
r = fn_body(builders, mb, r"\bfn\s+build_name\s*\(")
if r:
    _, body = r
    found = []
    for tag, pat in (("scope", r"scope\s*\.\s*get_entry\s*\("), ("builtin", r"Bif\s*::\s*from_str\s*\("), ("null", r"value_null!\s*\(")):
        for m in re.finditer(pat, body):
            found.append((m.start(), tag))
    name_sources = [t for _, t in sorted(found)]
else:
    errors.append("build_name not found")


def invocation(fn_name, arg_pat):
    """identifier independent: the callee parameter is the first parameter of the function, the callee evaluator the
    local bound to `build_evaluator(<callee parameter>)`, the callee value the local bound to `<callee evaluator>(<scope>)`"""
    m0 = re.search(r"\bfn\s+%s\s*\(\s*(\w+)\s*:" % fn_name, mb)
    r = fn_body(builders, mb, r"\bfn\s+%s\s*\(" % fn_name)
    if not r or not m0:
        errors.append("%s not found" % fn_name)
        return {"generic": False, "special": True, "callee_first": False, "arms": ["?"]}
    callee_param = m0.group(1)
    _, body = r
    g0 = re.search(r"let\s+(\w+)\s*=\s*build_evaluator\s*\(\s*%s\s*\)" % re.escape(callee_param), body)
    generic = g0 is not None
    callee_ev = g0.group(1) if g0 else "?"
    special = re.search(r"Bif\s*::\s*from_str|AstNode\s*::\s*Name|if\s+let\s+AstNode|match\s+%s\b" % re.escape(callee_param), body) is not None
    f = re.search(r"let\s+(\w+)\s*=\s*%s\s*\(\s*(\w+)\s*\)" % re.escape(callee_ev), body) if generic else None
    callee_val = f.group(1) if f else "?"
    scope_var = f.group(2) if f else "scope"
    # the first evaluation of anything else in the closure: another `<ident>(<scope>)` call
    others = [m for m in re.finditer(r"\b(\w+)\s*\(\s*%s\s*\)" % re.escape(scope_var), body) if m.group(1) != callee_ev]
    callee_first = bool(f and others and f.start() < min(m.start() for m in others))
    arms = []
    m = re.search(r"match\s+%s\s*\{" % re.escape(callee_val), body) if f else None
    if m:
        blk = block_after(body, m.start())
        inner = body[blk[0] + 1:blk[1]] if blk else ""
        depth = 0
        cur = ""
        # arm heads: text at depth 0 up to `=>`
        i = 0
        while i < len(inner):
            ch = inner[i]
            if ch in "{([":
                depth += 1
            elif ch in "})]":
                depth -= 1
            if depth == 0 and inner.startswith("=>", i):
                head = cur.strip().lstrip(",").strip()
                head = re.sub(r"\(.*$", "", head, flags=re.S).strip()
                arms.append(head.replace("Value::", ""))
                cur = ""
                # skip the arm's expression up to the `,` at depth 0
                i += 2
                d2 = 0
                while i < len(inner):
                    c2 = inner[i]
                    if c2 in "{([":
                        d2 += 1
                    elif c2 in "})]":
                        d2 -= 1
                    elif c2 == "," and d2 == 0:
                        break
                    i += 1
            else:
                cur += ch
            i += 1
    else:
        arms = ["?"]
    return {"generic": generic, "special": special, "callee_first": callee_first, "arms": arms}


pos = invocation("build_function_invocation_positional", None)
named = invocation("build_function_invocation_named", None)

# ---- ForExpressionEvaluator::evaluate
for_steps, partial_name = [], "?"
m = re.search(r"impl\s+ForExpressionEvaluator\s*\{", mi)
if m:
    blk = block_after(mi, m.start())
    impl_src, impl_masked = iterations[blk[0] + 1:blk[1]], mi[blk[0] + 1:blk[1]]
    pm = re.search(r'name_partial\s*:\s*"([^"]*)"\s*\.into\(\)', impl_src)
    if pm:
        partial_name = pm.group(1)
    r = fn_body(impl_src, impl_masked, r"\bfn\s+evaluate\s*\(")
    if r:
        _, body = r
        c = re.search(r"feel_iterator\s*\.\s*run\s*\(\s*\|\s*(\w+)\s*\|", body)
        blk2 = block_after(body, c.end()) if c else None
        # the accumulator: the local that the function returns as `Values::new(<acc>)`
        accm = re.search(r"let\s+mut\s+(\w+)\s*=\s*vec!\s*\[\s*\]\s*;", body[:c.start()]) if c else None
        if blk2:
            ctx_var = c.group(1)
            acc = accm.group(1) if accm else "?"
            I = r"[A-Za-z_]\w*"
            it_ctx, it_val = None, None      # the locals, whatever they are called (data flow is checked)
            for st in top_statements(body[blk2[0] + 1:blk2[1]]):
                flat = re.sub(r"\s+", "", st)          # white space carries no meaning here
                flat = re.sub(r",\)", ")", flat)          # trailing commas of wrapped argument lists
                m1 = re.fullmatch(r"letmut(%s)=%s\.clone\(\);" % (I, re.escape(ctx_var)), flat)
                m4 = re.fullmatch(r"let(%s)=evaluator\((%s)\);" % (I, I), flat)
                if m1:
                    it_ctx = m1.group(1); for_steps.append("clone")
                elif it_ctx and re.fullmatch(r"%s\.set_entry\(&self\.name_partial,Value::List\(Values::new\(%s\.clone\(\)\)\)\);" % (re.escape(it_ctx), re.escape(acc)), flat):
                    for_steps.append("set-partial")
                elif it_ctx and re.fullmatch(r"scope\.push\(%s(\.clone\(\))?\);" % re.escape(it_ctx), flat):
                    for_steps.append("push")
                elif m4 and m4.group(2) == "scope":
                    it_val = m4.group(1); for_steps.append("evaluate")
                elif re.fullmatch(r"scope\.pop\(\);", flat):
                    for_steps.append("pop")
                elif it_val and re.fullmatch(r"%s\.push\(%s\);" % (re.escape(acc), re.escape(it_val)), flat):
                    for_steps.append("append")
                else:
                    for_steps.append("other: " + re.sub(r"\s+", " ", st)[:40].replace('"', "'"))
        else:
            errors.append("closure of ForExpressionEvaluator::evaluate not found")
    else:
        errors.append("ForExpressionEvaluator::evaluate not found")
else:
    errors.append("impl ForExpressionEvaluator not found")


def lst(xs):
    return "[" + ", ".join('"%s"' % x.replace("\\", "\\\\").replace('"', "'") for x in xs) + "]"


def b(x):
    return "true" if x else "false"


body = "/-! GENERATED by translate/evalsources.py from feel-evaluator/src/builders.rs and iterations.rs — do not edit. -/\n\nnamespace Dmn.Gen\n\n"
body += "/-- build_name: what the closure consults, in the order of the text -/\ndef nameSources : List String := %s\n\n" % lst(name_sources)
for tag, d in (("positional", pos), ("named", named)):
    body += "/-- build_function_invocation_%s: the callee evaluator is `build_evaluator(lhs)` -/\ndef %sCalleeGeneric : Bool := %s\n" % (tag, tag, b(d["generic"]))
    body += "/-- … and the function looks at the callee node or at `Bif::from_str` itself -/\ndef %sCalleeSpecialCased : Bool := %s\n" % (tag, b(d["special"]))
    body += "/-- … the callee is evaluated before the arguments -/\ndef %sCalleeFirst : Bool := %s\n" % (tag, b(d["callee_first"]))
    body += "/-- … the arms of the dispatch on the callee value -/\ndef %sDispatch : List String := %s\n\n" % (tag, lst(d["arms"]))
body += "/-- ForExpressionEvaluator::evaluate: the top-level statements of the closure handed to FeelIterator::run -/\ndef forBodySteps : List String := %s\n" % lst(for_steps)
body += "/-- the name bound to the results so far -/\ndef forPartialName : String := \"%s\"\n\nend Dmn.Gen\n" % partial_name
path = os.path.join(a.out, "EvalSources.lean")
old = open(path).read() if os.path.exists(path) else None
if old != body:
    tmp = path + ".tmp"
    open(tmp, "w").write(body)
    os.replace(tmp, path)
print(json.dumps({"translator": "evalsources", "name_sources": name_sources, "positional": pos, "named": named, "for_steps": for_steps,
                  "partial_name": partial_name, "errors": errors, "changed": old != body}))
