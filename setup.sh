#!/bin/sh
# MANIFEST setup_cmd: build the Lean project (models, lemmas, property theorems, driver) and the
# harness from files on disk only. Nothing is fetched.
set -e
cd "$(dirname "$0")"
mkdir -p .build replays evidence
export CARGO_NET_OFFLINE=true
(cd lean && lake build Dmn dmn_driver)
(cd harness && RUSTFLAGS="--cfg dmntk_verif" CARGO_TARGET_DIR="$(pwd)/../.build/target" cargo build --offline)
echo "setup done"
