#!/bin/sh
# MANIFEST setup_cmd: build the Lean project (models, lemmas, property theorems, driver) and the
# harness from files on disk only. Nothing is fetched.
set -e
cd "$(dirname "$0")"
mkdir -p .build replays evidence
export CARGO_NET_OFFLINE=true
# the property modules too, so that the first quick run of every check finds its theorems built (lake rebuilds
# a module only when a source it depends on changed, e.g. a table regenerated from /repo)
(cd lean && lake build Dmn dmn_driver $(for i in 01 02 03 04 05 06 07 08 09 10 11 12 13 14 15 16 17 18 19 20; do echo Dmn.Props.C$i; done))
(cd harness && RUSTFLAGS="--cfg dmntk_verif" CARGO_TARGET_DIR="$(pwd)/../.build/target" cargo build --offline)
echo "setup done"
