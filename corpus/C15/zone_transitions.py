#!/usr/bin/env python3
"""Regenerates corpus/C15/zone_transitions.json: for a few named zones the UTC offset in force at every
instant of 2012-01-01 .. 2021-01-03 (UTC), as the offset at the start plus the list of transitions
[epoch seconds, new offset], from the system zone database (python zoneinfo) - an oracle independent of
chrono-tz. Only zones whose rules for these years have been the same in every release of the database
since 2012 are listed (the same choice as lib/zone_oracle.py, plus zones without any transition).
The table is committed; the check only reads it (harness/src/c15.rs, family `boundary`)."""
import json, sys, os
from datetime import datetime, timedelta, timezone
from zoneinfo import ZoneInfo

ZONES = ["America/New_York", "America/Los_Angeles", "Europe/Warsaw", "Europe/London", "Australia/Sydney",
         "Australia/Lord_Howe", "Pacific/Chatham", "America/St_Johns", "Pacific/Auckland",
         "Asia/Tokyo", "Asia/Kolkata", "Asia/Kathmandu", "Pacific/Honolulu", "Africa/Johannesburg",
         "Pacific/Kiritimati", "Pacific/Pago_Pago", "Etc/UTC"]
START = datetime(2011, 12, 29, tzinfo=timezone.utc)
END = datetime(2021, 1, 4, tzinfo=timezone.utc)

def off(z, t):
    return int(t.astimezone(z).utcoffset().total_seconds())

zones = {}
for zn in ZONES:
    z = ZoneInfo(zn)
    t = START
    prev = off(z, t)
    initial = prev
    trs = []
    while t < END:
        n = t + timedelta(minutes=15)
        o = off(z, n)
        if o != prev:
            lo, hi = t, n          # off(lo) == prev, off(hi) == o: bisect to the second
            while hi - lo > timedelta(seconds=1):
                mid = lo + (hi - lo) / 2
                mid = mid.replace(microsecond=0)
                if mid <= lo:
                    mid = lo + timedelta(seconds=1)
                if off(z, mid) == prev:
                    lo = mid
                else:
                    hi = mid
            trs.append([int(hi.timestamp()), o])
            prev = o
        t = n
    zones[zn] = {"initial": initial, "transitions": trs}
out = {"generated_by": "corpus/C15/zone_transitions.py", "from": int(START.timestamp()), "to": int(END.timestamp()), "zones": zones}
path = sys.argv[1] if len(sys.argv) > 1 else os.path.join(os.path.dirname(os.path.abspath(__file__)), "zone_transitions.json")
json.dump(out, open(path, "w"), indent=0, sort_keys=True)
print(len(zones), "zones", sum(len(v["transitions"]) for v in zones.values()), "transitions")
