#!/usr/bin/env python3
"""Regenerates corpus/C15/dt_props.json: date-and-time literals whose LOCAL date differs from their UTC date
(different day, month or year; also around daylight-saving switches of named zones; plus controls where
the two dates agree), each with what python3's datetime / zoneinfo say about the LOCAL value: year, month,
day, ISO weekday (Monday = 1), hour, minute, second, UTC offset in seconds, day of the year, ISO-8601 week
of the year, names of the weekday and of the month. An oracle independent of chrono / chrono-tz and of the
Lean specification. Only zones and years whose rules were the same in every release of the zone database
since 2012 are used (the choice of corpus/C15/zone_transitions.py). The table is committed; the check only
reads it (harness/src/c15.rs, family `local-props`). Deterministic (seeded)."""
import json, os, random, sys
from datetime import datetime, timedelta, timezone
from zoneinfo import ZoneInfo

rnd = random.Random(15)
ZONES = ["America/New_York", "America/Los_Angeles", "Europe/Warsaw", "Europe/London", "Australia/Sydney",
         "Australia/Lord_Howe", "Pacific/Chatham", "America/St_Johns", "Pacific/Auckland",
         "Asia/Tokyo", "Asia/Kolkata", "Asia/Kathmandu", "Pacific/Honolulu", "Africa/Johannesburg",
         "Pacific/Kiritimati", "Pacific/Pago_Pago", "Etc/UTC"]
OFFSETS = [-14 * 3600, -12 * 3600, -11 * 3600 - 1800, -9 * 3600 - 1800, -8 * 3600, -5 * 3600, -3 * 3600 - 1800,
           -3600, -1800, -60, -1, 1, 60, 1800, 3600, 7200, 5 * 3600 + 1800, 5 * 3600 + 2700, 8 * 3600 + 2700,
           9 * 3600 + 1800, 12 * 3600 + 2700, 13 * 3600, 14 * 3600, 3630, -(14 * 3600 + 59 * 60 + 59),
           14 * 3600 + 59 * 60 + 59, -7 * 3600 - 1, 10 * 3600 + 59]
WD = ["Monday", "Tuesday", "Wednesday", "Thursday", "Friday", "Saturday", "Sunday"]
MN = ["January", "February", "March", "April", "May", "June", "July", "August", "September", "October",
      "November", "December"]


def off_text(o):
    if o == 0:
        return "Z"
    a = abs(o)
    s = "-" if o < 0 else "+"
    if a % 60:
        return "%s%02d:%02d:%02d" % (s, a // 3600, a % 3600 // 60, a % 60)
    return "%s%02d:%02d" % (s, a // 3600, a % 3600 // 60)


rows = []
seen = set()


def add(local, offset, zone, cls):
    """local: naive datetime (the wall clock); offset: seconds east of UTC in force."""
    utc = local - timedelta(seconds=offset)
    text = "%04d-%02d-%02dT%02d:%02d:%02d%s" % (local.year, local.month, local.day, local.hour, local.minute,
                                                local.second, ("@" + zone) if zone else off_text(offset))
    if text in seen:
        return
    seen.add(text)
    iso = local.isocalendar()
    rows.append({
        "text": text, "zone": zone, "offset": offset, "class": cls,
        "y": local.year, "m": local.month, "d": local.day, "h": local.hour, "mi": local.minute, "s": local.second,
        "weekday": local.isoweekday(), "yday": local.timetuple().tm_yday, "week": iso[1], "week_year": iso[0],
        "weekday_name": WD[local.isoweekday() - 1], "month_name": MN[local.month - 1],
        "utc_date": "%04d-%02d-%02d" % (utc.year, utc.month, utc.day),
        "dates": "same" if (utc.year, utc.month, utc.day) == (local.year, local.month, local.day) else
                 ("year" if utc.year != local.year else ("month" if utc.month != local.month else "day")),
    })


def fixed(boundary, cls):
    """UTC midnight `boundary` (naive): instants within |offset| of it, written with the offset."""
    for o in rnd.sample(OFFSETS, 5):
        a = abs(o)
        ks = {0, a - 1, rnd.randrange(0, a)} if a > 1 else {0}
        for k in ks:
            if o > 0:
                # UTC is still before the boundary, the wall clock is already after it
                utc = boundary - timedelta(seconds=k + 1)
            else:
                # UTC is at or after the boundary, the wall clock is still before it
                utc = boundary + timedelta(seconds=k) if k < a else boundary
            add(utc + timedelta(seconds=o), o, None, cls)
        # controls: same date on both lines
        if rnd.random() < 0.6:
            continue
        utc = boundary + timedelta(hours=12, seconds=rnd.randrange(-3600, 3600))
        add(utc + timedelta(seconds=o), o, None, "control")


years = [2, 4, 100, 101, 400, 1000, 1582, 1583, 1600, 1700, 1899, 1900, 1901, 1970, 1999, 2000, 2001, 2015, 2016,
         2019, 2020, 2021, 2022, 2023, 2024, 2025, 2026, 2027, 2032, 2100, 2400, 9998, 9999]
for y in years:
    fixed(datetime(y, 1, 1), "year")
for y in (2023, 2024, 1900, 2000):
    for m in range(2, 13):
        fixed(datetime(y, m, 1), "month")
for _ in range(40):
    y = rnd.choice([rnd.randrange(2, 9999), rnd.randrange(1900, 2100)])
    m = rnd.randrange(1, 13)
    d = rnd.randrange(2, 28)
    fixed(datetime(y, m, d), "day")


def zone_rows():
    utc0 = datetime(2012, 1, 2, tzinfo=timezone.utc)
    utc1 = datetime(2021, 1, 1, tzinfo=timezone.utc)
    for zn in ZONES:
        z = ZoneInfo(zn)

        def put(t, cls):
            if not (utc0 <= t < utc1):
                return
            lt = t.astimezone(z)
            naive = lt.replace(tzinfo=None)
            # unambiguous, existing local times only, and not within a second of a switch
            for dlt in (-1, 0, 1):
                n2 = naive + timedelta(seconds=dlt)
                a = n2.replace(tzinfo=z, fold=0)
                b = n2.replace(tzinfo=z, fold=1)
                if a.utcoffset() != b.utcoffset():
                    return
                if a.astimezone(timezone.utc).astimezone(z).replace(tzinfo=None) != n2:
                    return
            add(naive, int(lt.utcoffset().total_seconds()), zn, cls)

        # the switches
        t = utc0
        prev = t.astimezone(z).utcoffset()
        while t < utc1:
            n = t + timedelta(minutes=30)
            o = n.astimezone(z).utcoffset()
            if o != prev:
                for dh in (-26, -2, -1, 1, 2, 26):
                    put(n + timedelta(hours=dh, seconds=rnd.randrange(0, 1800)), "dst-switch")
                prev = o
            t = n
        # turns of the year / month / day on the UTC line and on the wall clock
        for y in range(2012, 2021):
            for (m, d) in [(1, 1), (rnd.randrange(2, 13), 1), (rnd.randrange(1, 13), rnd.randrange(2, 28))]:
                b = datetime(y, m, d, tzinfo=timezone.utc)
                cls = "year" if (m, d) == (1, 1) else ("month" if d == 1 else "day")
                o = int(b.astimezone(z).utcoffset().total_seconds())
                a = abs(o)
                if a == 0:
                    put(b + timedelta(seconds=rnd.randrange(0, 3600)), "control")
                    continue
                for k in (0, a - 1, rnd.randrange(0, a)):
                    put(b - timedelta(seconds=k + 1) if o > 0 else b + timedelta(seconds=k), cls)
                if rnd.random() < 0.3:
                    put(b + timedelta(hours=12), "control")


zone_rows()
out = {"generated_by": "corpus/C15/dt_props.py", "rows": rows}
path = sys.argv[1] if len(sys.argv) > 1 else os.path.join(os.path.dirname(os.path.abspath(__file__)), "dt_props.json")
json.dump(out, open(path, "w"), indent=0, sort_keys=True)
from collections import Counter
print(len(rows), "rows", dict(Counter(r["dates"] for r in rows)), dict(Counter(r["class"] for r in rows)),
      sum(1 for r in rows if r["zone"]), "in named zones")
