#!/usr/bin/env python3
"""Regenerates corpus/C14/zone_transitions.json: for a set of named zones the UTC offset in force at every
instant from 1800-01-01 to the end of 2037 (the last year for which the compiled zone files list their
transitions one by one), as the offset at the start plus the list of transitions [epoch seconds, new offset],
found to the second by asking python3's zoneinfo (the system zone database) for the offset of instants 3 h
apart and bisecting wherever two neighbours differ. An oracle independent of chrono / chrono-tz.

The zones cover both hemispheres, offsets of a half hour and of 45 minutes, daylight-saving steps of 20, 30,
40, 60 and 120 minutes, `negative' daylight saving, zones that changed their standard offset (by minutes, by
hours, across the date line by a whole day), local-mean-time offsets with seconds, and zones without any
daylight saving. The table is committed; the check only reads it (harness/src/c14.rs, family `zone-instant`).

The zone database bundled with chrono-tz (release 2022a) is older than the system's. A zone whose rules were
changed by a later release is listed with the span over which both describe the same history (`since`,
`until`); no literal is generated outside it (the transitions are all kept: the offsets inside the span are
the same in both). The reasons are written next to each entry below."""
import json, os, sys
from datetime import datetime, timedelta, timezone
from zoneinfo import ZoneInfo

EPOCH = datetime(1970, 1, 1, tzinfo=timezone.utc)
START = datetime(1800, 1, 1, tzinfo=timezone.utc)
END = datetime(2038, 1, 1, tzinfo=timezone.utc)


def ts(y, m=1, d=1):
    return int((datetime(y, m, d, tzinfo=timezone.utc) - EPOCH).total_seconds())


# zone -> None (whole range) or (since, until): the instants (epoch seconds, None = open) between which the
# release bundled with chrono-tz (2022a) and the later ones describe the same history
ZONES = {
    # northern hemisphere, whole-hour offsets
    "Europe/Warsaw": None,
    "Europe/London": None,            # double summer time (+2 h), British Standard Time 1968-71
    "Europe/Dublin": None,            # `negative' daylight saving (winter is the exception) since 1971
    "Europe/Lisbon": (ts(1994), None),  # standard offset changed 1992 and 1996; 2024b rewrote Portugal's transitions of 1911-1993
    "Europe/Moscow": None,            # standard offset changed 2011 and 2014; decree time; LMT with seconds
    "Europe/Istanbul": None,          # permanent +03 since 2016
    "America/New_York": None,
    "America/Los_Angeles": None,
    "America/Phoenix": None,          # no daylight saving since 1968
    "America/Havana": None,           # switches at midnight
    "America/Caracas": None,          # -04:30 from 2007 to 2016
    "Atlantic/Azores": (ts(1994), None),  # 2024b rewrote Portugal's transitions of 1911-1993
    "Asia/Tokyo": None,
    "Asia/Seoul": None,               # +08:30 1954-61
    "Asia/Pyongyang": None,           # +08:30 2015-18
    "Asia/Tehran": (ts(1980), ts(2022)),  # 2022b: daylight saving abolished from 2022 on, transitions of 1935 and 1977-79 corrected
    "Asia/Kabul": None,               # +04:30
    "Asia/Kolkata": None,             # +05:30, +06:30 in war time
    "Asia/Kathmandu": None,           # +05:30 -> +05:45 in 1986
    "Asia/Yangon": None,              # +06:30
    "Africa/Cairo": (None, ts(2023)),   # 2023c: daylight saving resumed in 2023
    "Africa/Casablanca": (None, ts(2023)),  # `negative' daylight saving around Ramadan; the predicted dates were revised (2023a ff.)
    # half-hour zone with daylight saving, switched at 00:01 local for years
    "America/St_Johns": None,
    # southern hemisphere
    "America/Sao_Paulo": None,        # daylight saving abolished 2019
    "America/Santiago": (ts(1948), ts(2022)),  # 2022b/2022f: start of daylight saving moved in 2022; 2022b corrected 1946-47
    "Africa/Johannesburg": None,
    "Africa/Windhoek": None,          # `negative' daylight saving 1994-2017
    "Australia/Sydney": None,
    "Australia/Adelaide": None,       # +09:30 / +10:30
    "Australia/Lord_Howe": None,      # +10:30 / +11:00: a step of 30 minutes
    "Australia/Eucla": None,          # +08:45 / +09:45
    "Pacific/Auckland": None,         # +11:30 until 1946, step of 30 minutes before that
    "Pacific/Chatham": None,          # +12:45 / +13:45
    "Pacific/Apia": None,             # crossed the date line at the end of 2011 (a day skipped)
    "Pacific/Kiritimati": None,       # -10:40 -> +14:00 at the end of 1994
    "Pacific/Honolulu": None,         # -10:30 until 1947
    "Pacific/Pago_Pago": None,
    "Antarctica/Troll": None,         # +00 / +02: a step of two hours
    "Etc/UTC": None,
}


def off(z, t):
    return int(t.astimezone(z).utcoffset().total_seconds())


def transitions(zn):
    z = ZoneInfo(zn)
    t = START
    prev = off(z, t)
    initial = prev
    trs = []
    step = timedelta(hours=3)
    minute = timedelta(minutes=1)
    while t < END:
        n = t + step
        if off(z, n) != prev:
            # one or more changes inside the step: walk through it minute by minute, bisect to the second
            a = t
            while a < n:
                b = a + minute
                o = off(z, b)
                if o != prev:
                    lo, hi = a, b
                    while hi - lo > timedelta(seconds=1):
                        mid = lo + timedelta(seconds=int((hi - lo).total_seconds()) // 2)
                        if off(z, mid) == prev:
                            lo = mid
                        else:
                            hi = mid
                    trs.append([int((hi - EPOCH).total_seconds()), off(z, hi)])
                    prev = off(z, hi)
                    if prev != o:   # a second change within the same minute (never seen)
                        continue
                a = b
        t = n
    return initial, trs


def main():
    zones = {}
    lo, hi = int((START - EPOCH).total_seconds()), int((END - EPOCH).total_seconds())
    for zn, window in ZONES.items():
        initial, trs = transitions(zn)
        since, until = window if window is not None else (None, None)
        zones[zn] = {"initial": initial, "transitions": trs,
                     "since": since if since is not None else lo, "until": until if until is not None else hi}
    out = {"generated_by": "corpus/C14/zone_transitions.py", "from": lo, "to": hi, "zones": zones}
    path = sys.argv[1] if len(sys.argv) > 1 else os.path.join(os.path.dirname(os.path.abspath(__file__)), "zone_transitions.json")
    with open(path, "w") as f:
        json.dump(out, f, separators=(",", ":"), sort_keys=True)
        f.write("\n")
    print(json.dumps({"zones": len(zones), "transitions": sum(len(v["transitions"]) for v in zones.values())}))


if __name__ == "__main__":
    main()
