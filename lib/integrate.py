#!/usr/bin/env python3
"""Copy a builder's files from its scratch copy into /verif.
usage: lib/integrate.py <name> [--apply]
Lists files that are new or changed relative to /verif HEAD~ baseline of the copy (the copy has no .git;
we compare against /verif's current files) and copies those that the builder owns."""
import filecmp, os, shutil, subprocess, sys
name = sys.argv[1]; apply = "--apply" in sys.argv
own = []
for a in sys.argv:
    if a.startswith("--own="):
        own = a[6:].split(",")
src = "/tmp/w/%s/verif" % name
dst = "/verif"
SKIP_DIRS = {".build", ".lake", "replays", "evidence", "__pycache__", "seeded", ".git"}
SHARED = {"harness/src/main.rs", "harness/Cargo.toml", "harness/Cargo.lock", "known_findings.json", "MANIFEST.json",
          "lean/Driver/Main.lean", "check", "CONVENTIONS.md", "DESIGN.md", "lean/Dmn.lean", "lean/lake-manifest.json"}
new, changed, shared, stale = [], [], [], []
for root, dirs, files in os.walk(src):
    dirs[:] = [d for d in dirs if d not in SKIP_DIRS]
    for f in files:
        p = os.path.join(root, f); rel = os.path.relpath(p, src)
        q = os.path.join(dst, rel)
        if not os.path.exists(q):
            new.append(rel)
        elif not filecmp.cmp(p, q, shallow=False):
            if rel in SHARED:
                shared.append(rel)
            elif any(o.lower() == os.path.splitext(os.path.basename(rel))[0].lower() for o in own):
                changed.append(rel)
            else:
                stale.append(rel)
print("NEW:", *new, sep="\n  ")
print("CHANGED:", *changed, sep="\n  ")
print("SHARED (merge by hand):", *shared, sep="\n  ")
print("NOT OWNED, differs (ignored):", *stale, sep="\n  ")
if apply:
    for rel in new + changed:
        os.makedirs(os.path.dirname(os.path.join(dst, rel)), exist_ok=True)
        shutil.copy(os.path.join(src, rel), os.path.join(dst, rel))
    print("copied", len(new) + len(changed), "files")
