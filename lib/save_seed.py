#!/usr/bin/env python3
"""Verify a seeded change in its worktree (lib/verify_seed.sh) and store it under seeded/.
usage: save_seed.py <prop> <n> <patchfile> <demofile> <crate> <test-filter> <what> <needs> <check-result> <signatures>"""
import json, os, shutil, subprocess, sys
prop, n, patch, demo, crate, flt, what, needs, status, sig = sys.argv[1:11]
wt = "/tmp/seed/%s" % prop
out = subprocess.run(["/verif/lib/verify_seed.sh", wt, os.path.join(wt, patch), os.path.join(wt, demo), crate, flt],
                     stdout=subprocess.PIPE, stderr=subprocess.STDOUT, text=True).stdout
print(out)
ok = ("3371 passed" in out) and ("demo with change: rc=101" in out or "demo with change: rc=1" in out) and ("demo without change: rc=0" in out)
if not ok:
    print("NOT CONFIRMED"); sys.exit(1)
d = "/verif/seeded/%s-%s" % (prop, n)
os.makedirs(d, exist_ok=True)
shutil.copy(os.path.join(wt, patch), d + "/patch.diff")
shutil.copy(os.path.join(wt, demo), d + "/demo.diff")
meta = {"property": prop, "breaks": what, "needs_to_manifest": needs,
        "demonstration": {"crate": crate, "test_filter": flt,
                          "command": "git apply patch.diff demo.diff && cargo test -p %s --offline %s" % (crate, flt)},
        "confirmed": "lib/verify_seed.sh in the scratch worktree %s: %s" % (wt, " | ".join(l.strip() for l in out.strip().split("\n"))),
        "check": {"command": "lib/seedtest.sh %s seeded/%s-%s/patch.diff" % (prop, prop, n), "result": status, "signatures": sig}}
json.dump(meta, open(d + "/meta.json", "w"), indent=1)
if os.path.exists(os.path.join(wt, "NOTES.md")):
    k = int(n) if n.isdigit() else 1
    suffix = "" if k <= 2 else "-wave3" if k <= 5 else "-wave4" if k <= 8 else "-wave%d" % ((k + 3) // 3 + 1)
    shutil.copy(os.path.join(wt, "NOTES.md"), "/verif/seeded/%s-notes%s.md" % (prop, suffix))
print("saved", d)
