#!/bin/sh
# One seeded change against one or more checks, in a private worktree of /repo and a private copy of /verif
# (nothing touches /repo or /verif's evidence).   usage: lib/seedtest_one.sh <tag> <patch> <prop> [<prop>...]
tag="$1"; patch="$2"; shift 2
wt=/tmp/fix/one-$tag; cp=/tmp/w/one-$tag
git -C /repo worktree remove --force $wt 2>/dev/null; rm -rf $cp
git -C /repo worktree add -q --detach $wt HEAD || exit 2
mkdir -p $cp && rsync -a --exclude .git --exclude 'replays/*' /verif/ $cp/verif/
if ! git -C $wt apply "$patch"; then echo "NOAPPLY $patch"; else
  for prop in "$@"; do
    res=$(cd $cp/verif && timeout 3000 lib/withrepo.sh $wt ./check $prop 2>&1)
    echo "$res" | grep -E "^VIOLATION|quick:|CHECK-ERROR" | cut -c1-300
    for r in $(echo "$res" | grep "^VIOLATION" | sed 's/.*replay=\([^ ]*\).*/\1/' | head -2); do
      case "$r" in /*) f="$r";; *) f="$cp/verif/$r";; esac; echo "--- $r"; python3 -c "import json,sys; d=json.load(open(sys.argv[1])); print(json.dumps(d)[:700])" "$f" 2>/dev/null
    done
  done
fi
git -C /repo worktree remove --force $wt; rm -rf $cp
