#!/bin/sh
# Apply a seeded change to /repo, run the property's quick check, undo the change.
# usage: lib/seedtest.sh Cxx /path/to/patch.diff
prop="$1"; patch="$2"
cd /repo || exit 2
if [ -n "$(git status --porcelain --untracked-files=no)" ]; then echo "/repo is dirty"; exit 2; fi
git apply "$patch" || { echo "patch does not apply"; exit 2; }
cd /verif && ./check "$prop" --tier "${3:-quick}"; rc=$?
git -C /repo checkout -- . 
echo "check exit code: $rc"
exit $rc
