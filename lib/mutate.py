#!/usr/bin/env python3
"""Mutation run: how many small, compiling changes of the anchored code do the checks notice?

A measure of the checks (like the seeded changes of DESIGN §11.4, but mechanical and at scale), not a check itself.

  lib/mutate.py plan  <n> [seed] [path fragment…]   sample n mutants of covered lines (needs /tmp/cov/all.lcov
                                                    from lib/coverage.sh) into /tmp/mut/plan.json
  lib/mutate.py run   [workers]                     run the planned mutants: every worker has a scratch worktree
                                                    of /repo and a scratch copy of /verif; the mutant is written
                                                    into the worktree and the quick checks of the properties
                                                    anchored in that file run against it (lib/withrepo.sh) until
                                                    one prints VIOLATION.  Results: /verif/.build/mutants.jsonl
  lib/mutate.py show                                summary and the survivors

Nothing is ever written to /repo or to /verif (except the result file)."""
import collections, json, os, random, re, subprocess, sys, threading, time

LCOV = "/tmp/cov/all.lcov"
PLAN = "/tmp/mut/plan.json"
OUT = "/verif/.build/mutants.jsonl"

# (name, regex, replacement) — applied to one occurrence on one line
OPS = [
    ("lt->le", r" < ", " <= "), ("le->lt", r" <= ", " < "), ("gt->ge", r" > ", " >= "), ("ge->gt", r" >= ", " > "),
    ("eq->ne", r" == ", " != "), ("ne->eq", r" != ", " == "),
    ("lt->gt", r" < ", " > "), ("gt->lt", r" > ", " < "),
    ("and->or", r" && ", " || "), ("or->and", r" \|\| ", " && "),
    ("plus->minus", r" \+ ", " - "), ("minus->plus", r" - ", " + "), ("mul->div", r" \* ", " / "),
    ("pluseq->minuseq", r" \+= ", " -= "), ("minuseq->pluseq", r" -= ", " += "),
    ("true->false", r"\btrue\b", "false"), ("false->true", r"\bfalse\b", "true"),
    ("VTRUE->VFALSE", r"\bVALUE_TRUE\b", "VALUE_FALSE"), ("VFALSE->VTRUE", r"\bVALUE_FALSE\b", "VALUE_TRUE"),
    ("drop-not", r"(?<=[ (])!(?=[a-zA-Z_(])", ""),
    ("inc-const", r"(?<![\w.\"'#\[{])([0-9]+)(?![\w.\"'\]])", lambda m: str(int(m.group(1)) + 1)),
    ("dec-const", r"(?<![\w.\"'#\[{])([1-9][0-9]*)(?![\w.\"'\]])", lambda m: str(int(m.group(1)) - 1)),
    ("min->max", r"\.min\(", ".max("), ("max->min", r"\.max\(", ".min("),
    ("Less->Greater", r"Ordering::Less", "Ordering::Greater"), ("Greater->Less", r"Ordering::Greater", "Ordering::Less"),
    ("Some->None", r"return Some\([^()]*\);", "return None;"),
    ("is_some->is_none", r"\.is_some\(\)", ".is_none()"), ("is_none->is_some", r"\.is_none\(\)", ".is_some()"),
    ("is_ok->is_err", r"\.is_ok\(\)", ".is_err()"),
    ("last->first", r"\.last\(\)", ".first()"), ("first->last", r"\.first\(\)", ".last()"),
    ("skip1->skip0", r"\.skip\(1\)", ".skip(0)"),
    ("closed-flip", r"\*closed_(start|end)", lambda m: "!*closed_" + m.group(1)),
    ("any->all", r"\.any\(", ".all("), ("all->any", r"\.all\(", ".any("),
]
SKIP = re.compile(r"^\s*(//|#\[|use |pub use |mod |pub mod |fn |pub fn |pub\(crate\) fn |impl|trace|println|eprintln|write!|writeln!)|value_null!|invalid_argument_type!|invalid_number_of_parameters!|with_capacity|format!\(|err_[a-z_]+\(|static ref|Regex::new|const [A-Z_]+:|assert")

def props_for(path):
    m = collections.defaultdict(list)
    for l in open("/verif/properties.jsonl"):
        p = json.loads(l)
        for f in p["anchors"]["files"]:
            m[f].append(p["id"])
    rel = path[len("/repo/"):]
    ps = list(m.get(rel, []))
    extra = {
        "model-evaluator/": ["C04", "C12", "C11", "C03"], "model/": ["C12", "C03", "C04"], "recognizer/": ["C19"],
        "server/": ["C18"], "workspace/": ["C17", "C18"], "feel-evaluator/": ["C01", "C08", "C05"],
        "feel-parser/": ["C06", "C10", "C05"], "feel-number/": ["C02", "C07"], "feel/src/temporal": ["C14", "C15", "C09"],
        "feel/": ["C01", "C16", "C10"], "common/": ["C18"],
    }
    for k, v in extra.items():
        if rel.startswith(k):
            ps += [x for x in v if x not in ps]
            break
    # cheapest and most specific first
    cost = {"C05": 9, "C02": 8, "C12": 7, "C20": 6, "C18": 5, "C15": 4}
    first = sorted(ps, key=lambda x: (cost.get(x, 0), x))
    # then every other check: a mutant can be outside the properties anchored in its file and inside another's
    rest = sorted(["C%02d" % i for i in range(1, 21) if "C%02d" % i not in first], key=lambda x: (cost.get(x, 0), x))
    return first + rest

def plan(n, seed, frags):
    cov = collections.defaultdict(set)
    cur = None
    for l in open(LCOV):
        l = l.strip()
        if l.startswith("SF:"):
            cur = l[3:]
        elif l.startswith("DA:"):
            a, c = l[3:].split(",")[:2]
            if int(c) > 0:
                cov[cur].add(int(a))
    cands = []
    for f in sorted(cov):
        if "/tests/" in f or not f.startswith("/repo/") or (frags and not any(x in f for x in frags)):
            continue
        if f.endswith("lalr.rs") or f.endswith("timezones.rs") or "/model/src/model/mod.rs" in f:
            continue
        src = open(f).read().split("\n")
        cut = len(src)
        for i, l in enumerate(src):
            if l.strip().startswith("#[cfg(test)]"):
                cut = i
                break
        for ln in sorted(cov[f]):
            if ln > cut:
                continue
            line = src[ln - 1]
            if SKIP.search(line) or "dmntk_verif" in line:
                continue
            code = line.split("//")[0]
            for name, rx, rep in OPS:
                for k, m in enumerate(re.finditer(rx, code)):
                    # not inside a string literal (odd number of quotes before)
                    if code[: m.start()].count('"') % 2 == 1:
                        continue
                    new = code[: m.start()] + (rep(m) if callable(rep) else rep) + code[m.end():] + line[len(code):]
                    if new != line:
                        cands.append({"file": f, "line": ln, "op": name, "occ": k, "old": line, "new": new})
    rng = random.Random(seed)
    # stratify by file: round-robin over shuffled per-file lists, one mutant per line at most
    by = collections.defaultdict(list)
    for c in cands:
        by[c["file"]].append(c)
    for f in by:
        rng.shuffle(by[f])
    files = sorted(by, key=lambda f: -len(by[f]))
    weights = {f: max(1, int(len(by[f]) ** 0.5)) for f in files}
    chosen, used = [], set()
    while len(chosen) < n and any(by.values()):
        for f in files:
            for _ in range(weights[f]):
                while by[f]:
                    c = by[f].pop()
                    if (c["file"], c["line"]) not in used:
                        used.add((c["file"], c["line"]))
                        c["props"] = props_for(c["file"])
                        c["id"] = len(chosen)
                        chosen.append(c)
                        break
                if len(chosen) >= n:
                    break
            if len(chosen) >= n:
                break
    os.makedirs("/tmp/mut", exist_ok=True)
    json.dump(chosen, open(PLAN, "w"), indent=1)
    print("%d candidates, %d planned" % (len(cands), len(chosen)))
    for f, k in collections.Counter(c["file"] for c in chosen).most_common():
        print("  %4d %s" % (k, f))

def sh(cmd, **kw):
    return subprocess.run(cmd, shell=True, stdout=subprocess.PIPE, stderr=subprocess.STDOUT, text=True, **kw)

lock = threading.Lock()

def worker(w, todo):
    wt, cp = "/tmp/mut/wt%d" % w, "/tmp/mut/v%d/verif" % w
    sh("git -C /repo worktree remove --force %s; rm -rf /tmp/mut/v%d; git -C /repo worktree add -q --detach %s HEAD" % (wt, w, wt))
    sh("mkdir -p /tmp/mut/v%d && rsync -a --exclude .git --exclude 'replays/*' /verif/ %s/" % (w, cp))
    # warm the copy (first build) on the unchanged tree
    sh("cd %s && lib/withrepo.sh %s ./check C16" % (cp, wt))
    while True:
        with lock:
            if not todo:
                break
            c = todo.pop(0)
        rel = c["file"][len("/repo/"):]
        path = os.path.join(wt, rel)
        src = open(path).read().split("\n")
        res = {"id": c["id"], "file": rel, "line": c["line"], "op": c["op"], "old": c["old"].strip(), "new": c["new"].strip()}
        if src[c["line"] - 1] != c["old"]:
            res["result"] = "stale"
        else:
            src[c["line"] - 1] = c["new"]
            open(path, "w").write("\n".join(src))
            res["result"] = "survived"
            res["ran"] = []
            t0 = time.time()
            for p in c["props"]:
                try:
                    r = sh("cd %s && timeout 900 lib/withrepo.sh %s ./check %s" % (cp, wt, p))
                except Exception as e:  # noqa
                    res["result"] = "error"
                    break
                out = r.stdout
                res["ran"].append(p)
                if "the harness does not build" in out or "error[E" in out or "could not compile" in out:
                    res["result"] = "nocompile"
                    break
                v = [l for l in out.split("\n") if l.startswith("VIOLATION")]
                if v:
                    res["result"] = "killed"
                    res["by"] = p
                    res["nofail"] = all("no-failing-input-found" in l for l in v)
                    break
                if r.returncode == 124:
                    res["result"] = "timeout"
                    res["by"] = p
                    break
                if r.returncode not in (0, 1):
                    res["result"] = "check-error"
                    res["by"] = p
                    res["tail"] = out[-600:]
                    break
            res["secs"] = round(time.time() - t0)
            sh("git -C %s checkout -q -- ." % wt)
        with lock:
            open(OUT, "a").write(json.dumps(res) + "\n")
    sh("git -C /repo worktree remove --force %s; rm -rf /tmp/mut/v%d" % (wt, w))

def run(workers):
    todo = json.load(open(PLAN))
    done = set()
    if os.path.exists(OUT):
        done = {json.loads(l)["id"] for l in open(OUT)}
    todo = [c for c in todo if c["id"] not in done]
    ts = [threading.Thread(target=worker, args=(w, todo)) for w in range(1, workers + 1)]
    for t in ts:
        t.start()
    for t in ts:
        t.join()
    sh("git -C /repo worktree prune")

def recheck(workers):
    """Survivors of the first pass against every check that has not seen them yet (a mutant can be outside the
    properties anchored in its file and inside another's)."""
    plan = {c["id"]: c for c in json.load(open(PLAN))}
    todo = []
    for l in open(OUT):
        r = json.loads(l)
        if r["result"] != "survived":
            continue
        if re.search(r"invalid_number_of_parameters!|with_capacity|trace", r["old"]):
            continue
        c = dict(plan[r["id"]])
        c["props"] = [p for p in ["C%02d" % i for i in range(1, 21)] if p not in r.get("ran", [])]
        c["id"] = 100000 + r["id"]
        todo.append(c)
    done = {json.loads(l)["id"] for l in open(OUT)}
    todo = [c for c in todo if c["id"] not in done]
    print("rechecking %d survivors" % len(todo))
    ts = [threading.Thread(target=worker, args=(w, todo)) for w in range(1, workers + 1)]
    for t in ts:
        t.start()
    for t in ts:
        t.join()
    sh("git -C /repo worktree prune")


def show():
    rs = [json.loads(l) for l in open(OUT)]
    c = collections.Counter(r["result"] for r in rs)
    print(dict(c))
    valid = [r for r in rs if r["result"] in ("killed", "survived", "timeout", "check-error")]
    k = len([r for r in valid if r["result"] != "survived"])
    print("killed %d of %d compiling mutants (%.1f %%)" % (k, len(valid), 100.0 * k / max(1, len(valid))))
    for r in rs:
        if r["result"] in ("survived", "check-error", "timeout"):
            print("%s #%d %s:%d [%s] ran=%s\n    - %s\n    + %s" % (r["result"], r["id"], r["file"], r["line"], r["op"], ",".join(r.get("ran", [])), r["old"], r["new"]))

if __name__ == "__main__":
    a = sys.argv[1:]
    if not a:
        print(__doc__)
    elif a[0] == "plan":
        plan(int(a[1]), int(a[2]) if len(a) > 2 else 1, a[3:])
    elif a[0] == "run":
        run(int(a[1]) if len(a) > 1 else 4)
    elif a[0] == "show":
        show()
    elif a[0] == "recheck":
        recheck(int(a[1]) if len(a) > 1 else 4)
