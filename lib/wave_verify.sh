#!/bin/sh
# Confirm the k-th change of a seed sub-agent (worktree /tmp/seed/<prop>: patch[k].diff, demo[k].diff).
# usage: lib/wave_verify.sh <prop> <k: 1|2|3> <crate> <test-filter>      -> prints CONFIRMED / NOT-CONFIRMED
prop="$1"; k="$2"; crate="$3"; filter="$4"
sfx=""; [ "$k" = "1" ] || sfx="$k"
wt=${WAVE_ROOT:-/tmp/seed}/$prop
out=$(/verif/lib/verify_seed.sh "$wt" "$wt/patch$sfx.diff" "$wt/demo$sfx.diff" "$crate" "$filter" 2>&1)
echo "$out"
if echo "$out" | grep -q "3371 passed" && echo "$out" | grep -q "demo with change: rc=10*1 " && echo "$out" | grep -q "demo without change: rc=0 .*ok"; then
  echo "CONFIRMED $prop $k"
else
  echo "NOT-CONFIRMED $prop $k"
fi
