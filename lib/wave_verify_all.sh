#!/bin/sh
# Verify all listed changes of one property: lines "<prop> <k> <crate> <filter>" of the given table (default /tmp/seed/wave6.tsv)
prop="$1"; tbl="${2:-${WAVE_ROOT:-/tmp/seed}/wave.tsv}"
grep "^$prop " "$tbl" | while read p k crate filter; do
  /verif/lib/wave_verify.sh "$p" "$k" "$crate" "$filter" > ${WAVE_ROOT:-/tmp/seed}/logs/$p-$k-verify.txt 2>&1
  tail -1 ${WAVE_ROOT:-/tmp/seed}/logs/$p-$k-verify.txt
done
