#!/bin/sh
# Confirm a seeded change in its scratch worktree:
#  (1) with the change the existing suite still has 3371 passes,
#  (2) the demonstration fails with the change, (3) passes without it.
# usage: lib/verify_seed.sh <worktree> <patch> <demo> <crate> <test-filter>
wt="$1"; patch="$2"; demo="$3"; crate="$4"; filter="$5"
cd "$wt" || exit 2
log=/tmp/seed/logs/$(basename "$wt"); mkdir -p /tmp/seed/logs
dir=${crate#dmntk-}
# cargo does not rebuild the C library when only a .c / .h file changes (the build script declares no dependency)
cfix() { if grep -q "decnumber/" "$patch"; then touch "$wt/feel-number/build.rs"; fi; }
git checkout -q -- . && git clean -fdq -e target -e '*.diff' -e NOTES.md -e '*.md' >/dev/null 2>&1
git apply "$patch" || { echo "PATCH-DOES-NOT-APPLY"; exit 2; }
cfix
cargo nextest run --workspace --no-fail-fast --tool-config-file pb:/w/lib/nextest.toml --profile pb --test-threads 8 --offline > $log-suite.log 2>&1
echo "suite with change: $(grep Summary $log-suite.log)"
git apply "$demo" || { echo "DEMO-DOES-NOT-APPLY"; exit 2; }
cargo test --manifest-path "$wt/$dir/Cargo.toml" --offline "$filter" > $log-demo1.log 2>&1; echo "demo with change: rc=$? $(grep 'test result' $log-demo1.log | head -1)"
git apply -R "$patch" || { echo "CANNOT-REVERT"; exit 2; }
cfix
cargo test --manifest-path "$wt/$dir/Cargo.toml" --offline "$filter" > $log-demo2.log 2>&1; echo "demo without change: rc=$? $(grep 'test result' $log-demo2.log | head -1)"
git checkout -q -- .
cfix
