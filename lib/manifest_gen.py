#!/usr/bin/env python3
"""Regenerates MANIFEST.json from lib/props/Cxx.json (so that it is always schema-valid)."""
import json, os, sys
sys.path.insert(0, os.path.dirname(os.path.abspath(__file__)))
import props

HOOK_COMMITS = ["d05b882", "ad83700", "6e350c6", "3d38468"]
NOTES = ("Every check is `./check Cxx`: regenerate translated tables from /repo, `lake build` the property's theorems, "
         "audit axioms, rebuild the harness against /repo's working tree, run implementation and Lean model on the same "
         "generated inputs, classify disagreements (impl-vs-spec = violation with replay; impl-vs-model or a broken proof "
         "obligation with no failing input = VIOLATION ... no-failing-input-found). See DESIGN.md.")
checks, na = [], []
for pid, c in sorted(props.PROPS.items()):
    if not c.get("claimed"):
        na.append({"property_id": pid, "reason": c.get("not_applicable_reason", "not claimed")})
        continue
    checks.append({
        "property_id": pid,
        "quick_cmd": "./check %s --tier quick" % pid,
        "thorough_cmd": "./check %s --tier thorough" % pid,
        "evidence_file": "evidence/%s.json" % pid,
        "replay_cmd_template": "./check %s --replay {path}" % pid,
        "engine": "lean4-proof+correspondence",
        "level_claimed": {"category": "proof", "text": c["level_text"], "design_ref": c["design_ref"]},
        "level_note": c["level_note"],
        "technique": c["technique"],
    })
manifest = {
    "version": 1,
    "setup_cmd": "./setup.sh",
    "hooks": {
        "guard": "--cfg dmntk_verif",
        "enable": "RUSTFLAGS=\"--cfg dmntk_verif\" cargo build --offline (harness crate, path-patched to /repo)",
        "baseline_off_cmd": "cd /repo && cargo nextest run --workspace --no-fail-fast --tool-config-file pb:/w/lib/nextest.toml --profile pb --test-threads 8 --offline",
        "source_commits": HOOK_COMMITS,
        "add_only": True,
    },
    "engines": [
        {"name": "lean4-proof+correspondence", "path": "lean/ harness/ check",
         "serves_properties": [c["property_id"] for c in checks],
         "kind_free_text": "Lean 4 theorems about hand-written / regenerated models (lake build + #print axioms audit), tied to /repo by a differential harness that runs the real crates and the compiled Lean driver on the same inputs"},
    ],
    "checks": checks,
    "notes": NOTES,
    "not_applicable": na,
}
out = os.path.join(os.path.dirname(os.path.dirname(os.path.abspath(__file__))), "MANIFEST.json")
json.dump(manifest, open(out, "w"), indent=1)
print("wrote", out, len(checks), "checks,", len(na), "not applicable")
