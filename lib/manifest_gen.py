#!/usr/bin/env python3
"""Regenerates MANIFEST.json from lib/manifest_data.py (kept as data so it is always valid)."""
import json, os, sys
sys.path.insert(0, os.path.dirname(os.path.abspath(__file__)))
import manifest_data as M

checks = []
for pid, c in M.CHECKS.items():
    checks.append({
        "property_id": pid,
        "quick_cmd": "./check %s --tier quick" % pid,
        "thorough_cmd": "./check %s --tier thorough" % pid,
        "evidence_file": "evidence/%s.json" % pid,
        "replay_cmd_template": "./check %s --replay {path}" % pid,
        "engine": "lean4-proof+correspondence",
        "level_claimed": {"category": "proof", "text": c["text"], "design_ref": c["design_ref"]},
        "level_note": c["note"],
        "technique": c["technique"],
    })
manifest = {
    "version": 1,
    "setup_cmd": "./setup.sh",
    "hooks": {
        "guard": "--cfg dmntk_verif",
        "enable": "RUSTFLAGS=\"--cfg dmntk_verif\" cargo build --offline (harness crate, path-patched to /repo)",
        "baseline_off_cmd": "cd /repo && cargo nextest run --workspace --no-fail-fast --tool-config-file pb:/w/lib/nextest.toml --profile pb --test-threads 8 --offline",
        "source_commits": M.HOOK_COMMITS,
        "add_only": True,
    },
    "engines": [
        {"name": "lean4-proof+correspondence", "path": "lean/ harness/ check",
         "serves_properties": sorted(M.CHECKS.keys()),
         "kind_free_text": "Lean 4 theorems about hand-written / regenerated models (lake build + #print axioms audit), tied to /repo by a differential harness that runs the real crates and the compiled Lean driver on the same inputs"},
    ],
    "checks": checks,
    "notes": M.NOTES,
    "not_applicable": [{"property_id": k, "reason": v} for k, v in M.NOT_APPLICABLE.items()],
}
out = os.path.join(os.path.dirname(os.path.dirname(os.path.abspath(__file__))), "MANIFEST.json")
json.dump(manifest, open(out, "w"), indent=1)
print("wrote", out, len(checks), "checks,", len(M.NOT_APPLICABLE), "not applicable")
