#!/usr/bin/env python3
"""Regenerates corpus/C15/zone_offsets.json: UTC offsets of named zones at local times around
their daylight-saving transitions, from the system zone database (python zoneinfo) — an oracle
independent of chrono-tz. Only zones and years whose rules have been stable in every release of
the database since 2010 are used, so that a newer or older database gives the same table.
The table is committed; the check only reads it."""
import json, sys
from datetime import datetime, timedelta, timezone
from zoneinfo import ZoneInfo

ZONES = ["America/New_York", "America/Los_Angeles", "Europe/Warsaw", "Europe/London", "Australia/Sydney",
         "Australia/Lord_Howe", "Pacific/Chatham", "Asia/Tokyo", "Asia/Kolkata", "America/St_Johns"]
YEARS = range(2012, 2021)
rows = []
for zn in ZONES:
    z = ZoneInfo(zn)
    for y in YEARS:
        t = datetime(y, 1, 1, tzinfo=timezone.utc)
        end = datetime(y + 1, 1, 1, tzinfo=timezone.utc)
        prev = t.astimezone(z).utcoffset()
        transitions = []
        while t < end:
            t += timedelta(minutes=15)
            o = t.astimezone(z).utcoffset()
            if o != prev:
                transitions.append(t)
                prev = o
        locals_ = [datetime(y, 1, 15, 12, 0), datetime(y, 7, 15, 12, 0)]
        for tr in transitions:
            base = tr.astimezone(z).replace(tzinfo=None)
            for dh in (-26, -5, -3, -2, -1, 0, 1, 2, 3, 5, 26):
                for mm in (0, 30):
                    locals_.append((base + timedelta(hours=dh)).replace(minute=mm, second=0, microsecond=0))
        for lt in locals_:
            a = lt.replace(tzinfo=z, fold=0)
            b = lt.replace(tzinfo=z, fold=1)
            oa, ob = a.utcoffset(), b.utcoffset()
            # a local time exists iff it survives the round trip through UTC
            back = a.astimezone(timezone.utc).astimezone(z).replace(tzinfo=None)
            if back != lt:
                kind = "gap"
            elif oa != ob:
                kind = "ambiguous"
            else:
                kind = "plain"
            rows.append({"zone": zn, "local": lt.strftime("%Y-%m-%dT%H:%M:%S"), "kind": kind,
                         "offset": int(oa.total_seconds()) if kind == "plain" else None})
seen = set(); out = []
for r in rows:
    k = (r["zone"], r["local"])
    if k not in seen:
        seen.add(k); out.append(r)
json.dump({"generated_by": "lib/zone_oracle.py", "rows": out}, open(sys.argv[1] if len(sys.argv) > 1 else "/verif/corpus/C15/zone_offsets.json", "w"), indent=0)
print(len(out), "rows", sum(1 for r in out if r["kind"] == "gap"), "gap", sum(1 for r in out if r["kind"] == "ambiguous"), "ambiguous")
