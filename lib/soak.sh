#!/bin/sh
# Run every quick check under several seeds on the current tree (false-alarm soak). usage: lib/soak.sh "2 3 4 5"
cd /verif || exit 2
out=.build/soak.txt; : > $out
for sd in ${1:-2 3 4 5 6}; do
  for i in 01 02 03 04 05 06 07 08 09 10 11 12 13 14 15 16 17 18 19 20; do
    r=$(VERIF_SEED=$sd ./check C$i 2>&1 | grep -v KNOWN | tail -1 | cut -c1-150)
    echo "seed=$sd $r" >> $out
  done
done
echo DONE >> $out
