#!/usr/bin/env python3
"""Regenerates the two generated tables of DESIGN.md §11.3 (fix: commits and findings of the fourth session)
between the markers <!-- S4-FIXES --> … <!-- /S4-FIXES --> and <!-- S4-FINDINGS --> … <!-- /S4-FINDINGS -->."""
import json, re, subprocess
P = '/verif/DESIGN.md'
s = open(P).read()
kf = json.load(open('/verif/known_findings.json'))['findings']
log = subprocess.run(['git', '-C', '/repo', 'log', '--reverse', '--format=%h\t%s', '1456524..HEAD'], capture_output=True, text=True).stdout.strip().split('\n')
bycommit = {}
for f in kf:
    if f.get('status') == 'fixed' and f.get('commit'):
        bycommit.setdefault(f['commit'], []).append(f)
rows = []
for l in log:
    h, subj = l.split('\t', 1)
    props = '/'.join(sorted({f['property'] for f in bycommit.get(h, [])})) or '?'
    rows.append("| %s | %s | %s |" % (h, props, subj[5:]))
old_ids = {'F7', 'F7b', 'F7c', 'F7d', 'F20', 'F9', 'F12f', 'F19', 'F22', 'F23', 'F24', 'F2b', 'F21-all', 'F21-any', 'F25', 'F25-dur-emptyfrac', 'F28-dtd-huge', 'F8-dt-compare', 'F8-dt-sub', 'F19-sub292'}
newf = [f for f in kf if f['status'] == 'finding' and f['id'] not in old_ids]
frows = []
for f in newf:
    why = (f.get('why_not_repaired') or '').strip().replace('\n', ' ').replace('|', '/')
    sig = f['signature'].replace('|', '/')
    frows.append("| %s | %s: %s | %s |" % (f['property'], f['id'], sig[:170], why[:260] if why else 'see the entry'))
fix_block = "<!-- S4-FIXES -->\n| commit | property | what now holds |\n|---|---|---|\n" + "\n".join(rows) + "\n<!-- /S4-FIXES -->"
find_block = "<!-- S4-FINDINGS -->\n| property | finding | why it is not repaired |\n|---|---|---|\n" + "\n".join(frows) + "\n<!-- /S4-FINDINGS -->"
if '<!-- S4-FIXES -->' in s:
    s = re.sub(r'<!-- S4-FIXES -->.*?<!-- /S4-FIXES -->', lambda m: fix_block, s, flags=re.S)
    s = re.sub(r'<!-- S4-FINDINGS -->.*?<!-- /S4-FINDINGS -->', lambda m: find_block, s, flags=re.S)
else:
    # first run: replace the tables written by hand
    a = s.index("| commit | property | what now holds |")
    b = s.index("Recorded in `known_findings.json` and not repaired")
    s = s[:a] + fix_block + "\n\n" + s[b:]
    a = s.index("| property | finding | why it is not repaired |", s.index("Added in the fourth session"))
    b = s.index("### 11.4 Seeded changes")
    s = s[:a] + find_block + "\n\n" + s[b:]
s = re.sub(r'Repaired in the fourth session \(\d+ more', 'Repaired in the fourth session (%d more' % len(rows), s)
s = re.sub(r'Added in the fourth session \(\d+ entries', 'Added in the fourth session (%d entries' % len(newf), s)
open(P, 'w').write(s)
print(len(rows), 'fix commits,', len(newf), 'findings')
