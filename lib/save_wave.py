#!/usr/bin/env python3
"""Store the changes of a seed wave under seeded/ from the sub-agents' worktrees and the verification logs.
usage: save_wave.py <table.tsv> <status.tsv> <first-number> <wave-label>
 table.tsv : <prop> <k> <crate> <test-filter>      (what lib/wave_verify.sh was run with)
 status.tsv: <prop> <k> <TAB-separated: result text, signatures>
Only changes whose log /tmp/seed/logs/<prop>-<k>-verify.txt ends in CONFIRMED are stored."""
import json, os, re, shutil, sys
ROOT = os.environ.get("WAVE_ROOT", "/tmp/seed")
table, status, first, label = sys.argv[1], sys.argv[2], int(sys.argv[3]), sys.argv[4]
st = {}
for l in open(status):
    l = l.rstrip("\n")
    if not l.strip():
        continue
    p, k, rest = l.split(" ", 2)
    parts = rest.split("\t")
    st[(p, k)] = (parts[0], parts[1] if len(parts) > 1 else "")
for l in open(table):
    p, k, crate, flt = l.split()
    log = "%s/logs/%s-%s-verify.txt" % (ROOT, p, k)
    if not os.path.exists(log):
        print("no log", p, k); continue
    out = open(log).read()
    if "CONFIRMED %s %s" % (p, k) not in out or "NOT-CONFIRMED" in out:
        print("NOT CONFIRMED", p, k); continue
    wt = "%s/%s" % (ROOT, p)
    sfx = "" if k == "1" else k
    n = first + int(k) - 1
    d = "/verif/seeded/%s-%d" % (p, n)
    os.makedirs(d, exist_ok=True)
    shutil.copy("%s/patch%s.diff" % (wt, sfx), d + "/patch.diff")
    shutil.copy("%s/demo%s.diff" % (wt, sfx), d + "/demo.diff")
    notes = open(wt + "/NOTES.md").read() if os.path.exists(wt + "/NOTES.md") else ""
    # first heading / table line that mentions this change
    what = ""
    m = re.search(r"^#+ .*(?:%s\.|patch%s\.diff).*$" % (k, sfx), notes, re.M)
    if m:
        what = m.group(0).lstrip("# ").strip()
    result, sig = st.get((p, k), ("not yet run", ""))
    meta = {"property": p, "wave": label, "breaks": what or ("change %s of %s, see seeded/%s-notes-%s.md" % (k, p, p, label)),
            "needs_to_manifest": "see seeded/%s-notes-%s.md" % (p, label),
            "demonstration": {"crate": crate, "test_filter": flt,
                              "command": "git apply patch.diff demo.diff && cargo test -p %s --offline %s" % (crate, flt)},
            "confirmed": "lib/wave_verify.sh in the scratch worktree %s: %s" % (wt, " | ".join(x.strip() for x in out.strip().split("\n") if x.strip())),
            "check": {"command": "lib/seedtest_one.sh x seeded/%s-%d/patch.diff %s" % (p, n, p), "result": result, "signatures": sig}}
    json.dump(meta, open(d + "/meta.json", "w"), indent=1)
    if notes:
        open("/verif/seeded/%s-notes-%s.md" % (p, label), "w").write(notes)
    print("saved", d, "-", result[:60])
