#!/bin/sh
# Run every kept seeded change against its property's check: each must produce a VIOLATION line.
# Applies the patch to /repo, runs ./check, reverts (lib/seedtest.sh). Do not run other checks meanwhile.
# usage: lib/seed_regress.sh [seed-dir-names...]   (default: all of seeded/*/)
cd /verif || exit 2
out=.build/seed-regress.txt; : > $out
seeds="$@"; [ -z "$seeds" ] && seeds=$(ls -d seeded/*/ | xargs -n1 basename)
for n in $seeds; do
  prop=${n%%-*}
  res=$(lib/seedtest.sh $prop /verif/seeded/$n/patch.diff 2>&1)
  if echo "$res" | grep -q "patch does not apply"; then echo "$n NOAPPLY" >> $out; continue; fi
  v=$(echo "$res" | grep -c "^VIOLATION")
  nf=$(echo "$res" | grep "^VIOLATION" | grep -c "no-failing-input-found")
  echo "$n violations=$v no-failing-input=$nf $(echo "$res" | grep "quick:" | sed 's/.*obligations discharged, //' | cut -c1-60)" >> $out
done
git -C /repo status --short | head -3 >> $out
echo DONE >> $out
