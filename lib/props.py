"""Per-property configuration of ./check (translators, trusted base, assumptions, time limits)."""

COMMON_TB = [
    "Lean compiler/runtime for the driver executable (model answers in the correspondence are compiled code)",
    "harness/ (generators, canonicalisation, comparison) and check (classification)",
    "rustc; the harness links every dmntk-* crate from /repo's working tree via [patch.crates-io]",
]

PROPS = {
    "C16": {
        "translators": [],
        "trusted_base": COMMON_TB + [
            "hand-written model Dmn/Model/FType.lean, Dmn/Model/Coerce.lean of feel/src/types.rs (is_equivalent, is_conformant, coerced) and values.rs (type_of); tied by correspondence on the public API",
        ],
        "assumptions": [
            "FeelType::Context is a BTreeMap, hence keys are distinct (FType.WF)",
            "the correspondence samples types to depth 4; the theorems have no depth bound",
        ],
    },
    "C17": {
        "translators": [],
        "trusted_base": COMMON_TB + [
            "hand-written model Dmn/Model/Workspace.lean of workspace/src/workspace.rs (add, remove, replace, clear, deploy, evaluate_invocable lookup); HashMaps as association lists; tied by the verif_snapshot hook and behaviourally",
            "ModelEvaluator::new succeeds/fails as a parameter of the model (Def.builds); the alphabet's failing model is found by trying candidates on the real builder",
        ],
        "assumptions": [
            "HashMap insert/remove/contains_key behave as a finite map (std)",
            "the correspondence enumerates histories up to length 4 (quick) / 6 (thorough) over 11 operations and random ones to length 200; the theorems hold for every history",
        ],
    },
}
