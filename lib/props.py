"""Per-property configuration of ./check: one JSON file per property under lib/props/."""
import glob
import json
import os

HERE = os.path.dirname(os.path.abspath(__file__))

COMMON_TB = [
    "Lean compiler/runtime for the driver executable (model answers in the correspondence are compiled code)",
    "harness/ (generators, canonicalisation, comparison) and check (classification)",
    "rustc; the harness links every dmntk-* crate from /repo's working tree via [patch.crates-io]",
]

PROPS = {}
for path in sorted(glob.glob(os.path.join(HERE, "props", "C*.json"))):
    pid = os.path.basename(path)[:-5]
    cfg = json.load(open(path))
    cfg["trusted_base"] = COMMON_TB + cfg.get("trusted_base", [])
    PROPS[pid] = cfg
