#!/bin/sh
# Parallel regression over all kept seeded changes: N workers, each with its own scratch worktree of /repo
# (at HEAD) and its own scratch copy of /verif; a seed's patch is applied in the worktree and the property's
# check of the copy runs against it through lib/withrepo.sh. /repo and /verif themselves are not touched.
# usage: lib/seed_regress_par.sh [workers]      result: /verif/.build/seed-regress-par.txt
N=${1:-4}
cd /verif || exit 2
out=/verif/.build/seed-regress-par.txt; : > $out
seeds=$(ls -d seeded/*/ | xargs -n1 basename)
i=0
for w in $(seq 1 $N); do
  wt=/tmp/fix/reg$w; cp=/tmp/w/reg$w
  git -C /repo worktree remove --force $wt 2>/dev/null; rm -rf $cp
  git -C /repo worktree add -q --detach $wt HEAD
  mkdir -p $cp && rsync -a --exclude .git --exclude 'replays/*' /verif/ $cp/verif/
done
worker() {
  w=$1; wt=/tmp/fix/reg$w; cp=/tmp/w/reg$w/verif
  k=0
  for n in $seeds; do
    k=$((k+1)); [ $((k % N)) -eq $((w % N)) ] || continue
    prop=${n%%-*}
    git -C $wt checkout -q -- . 
    if ! git -C $wt apply /verif/seeded/$n/patch.diff 2>/dev/null; then echo "$n NOAPPLY" >> $out; continue; fi
    res=$(cd $cp && lib/withrepo.sh $wt ./check $prop 2>&1)
    v=$(echo "$res" | grep -c "^VIOLATION"); nf=$(echo "$res" | grep "^VIOLATION" | grep -c "no-failing-input-found")
    echo "$n violations=$v no-failing-input=$nf $(echo "$res" | grep "quick:" | sed 's/.*obligations discharged, //' | cut -c1-50)" >> $out
    git -C $wt checkout -q -- .
  done
}
for w in $(seq 1 $N); do worker $w & done
wait
for w in $(seq 1 $N); do git -C /repo worktree remove --force /tmp/fix/reg$w; rm -rf /tmp/w/reg$w; done
echo DONE >> $out
