#!/usr/bin/env python3
"""A second opinion on the regular-expression oracle of harness/src/c08.rs (module `rx`).

The harness, run with VERIF_C08_RXDUMP=<file>, writes one JSON line per judged call of matches / replace /
split: {"bif", "args" (the FEEL literals of the call), "want" (the oracle's expectation, FEEL text)}.
This script evaluates the same calls with python3's `re` on the sub-domain where XPath and Python regular
expressions agree, and lists the calls on which the oracle and `re` differ:

  * `$` outside the flag m is the end of the text (Python: also before a final newline): rewritten to `\\Z`;
  * the replacement `$N` is Python's `\\g<N>`;
  * split: the texts between the matches (Python's re.split would add the groups);
  * a call the oracle rejects as "no regular expression" is only counted (Python reads `a{` as a literal).

usage: lib/regex_second_opinion.py <dump file>      exit 0 when nothing differs
"""
import json
import re
import sys


def unlit(t):
    if len(t) < 2 or t[0] != '"' or t[-1] != '"':
        return None
    out, i, s = [], 0, t[1:-1]
    while i < len(s):
        c = s[i]
        if c == "\\":
            i += 1
            if i >= len(s):
                return None
            e = s[i]
            out.append({"n": "\n", "t": "\t", '"': '"', "\\": "\\"}.get(e))
            if out[-1] is None:
                return None
        else:
            out.append(c)
        i += 1
    return "".join(out)


def to_python(p, multiline):
    """`$` -> `\\Z` outside a class when the flag m is off."""
    out, i, in_class = [], 0, False
    while i < len(p):
        c = p[i]
        if c == "\\" and i + 1 < len(p):
            out.append(p[i:i + 2])
            i += 2
            continue
        if in_class:
            if c == "]":
                in_class = False
        elif c == "[":
            in_class = True
        elif c == "$" and not multiline:
            out.append("\\Z")
            i += 1
            continue
        out.append(c)
        i += 1
    return "".join(out)


def show(v):
    def lit(s):
        return '"' + s.replace("\\", "\\\\").replace('"', '\\"').replace("\n", "\\n").replace("\t", "\\t") + '"'
    if v is None:
        return "null"
    if isinstance(v, bool):
        return "true" if v else "false"
    if isinstance(v, str):
        return lit(v)
    return "[" + ", ".join(lit(x) for x in v) + "]"


def main():
    differ, judged, invalid, skipped = [], 0, 0, 0
    for line in open(sys.argv[1]):
        d = json.loads(line)
        bif, args, want = d["bif"], d["args"], d["want"]
        vals = [unlit(a) for a in args[:3]]
        flags_arg = None
        if bif == "matches" and len(args) == 3:
            flags_arg = unlit(args[2])
            vals = vals[:2]
        if bif == "replace" and len(args) == 4:
            flags_arg = unlit(args[3])
        if any(v is None for v in vals) or (flags_arg is None and len(args) > (2 if bif != "replace" else 3)):
            skipped += 1
            continue
        letters = flags_arg or ""
        if "q" in letters or any(c not in "smix" for c in letters):
            skipped += 1
            continue
        if want == "null":
            invalid += 1
            continue
        fl = 0
        for c, f in (("i", re.I), ("s", re.S), ("m", re.M), ("x", re.X)):
            if c in letters:
                fl |= f
        try:
            rx = re.compile(to_python(vals[1], "m" in letters), fl)
        except re.error as e:
            differ.append((d, "python rejects the pattern: %s" % e))
            continue
        s = vals[0]
        if bif == "matches":
            got = rx.search(s) is not None
        elif bif == "replace":
            repl = re.sub(r"\$(\d)", lambda m: "\\g<%s>" % m.group(1), vals[2].replace("\\", "\\\\"))
            try:
                got = rx.sub(repl, s)
            except (re.error, IndexError):
                # a group that does not exist: the empty string in XPath 2.0 and for the `regex` crate
                got = rx.sub(lambda m: re.sub(r"\$(\d)", lambda g: (m.group(int(g.group(1))) or "") if int(g.group(1)) <= rx.groups else "", vals[2]), s)
        else:
            got, pos = [], 0
            for m in rx.finditer(s):
                got.append(s[pos:m.start()])
                pos = m.end()
            got.append(s[pos:])
        judged += 1
        if show(got) != want:
            differ.append((d, "python: %s" % show(got)))
    for d, why in differ[:40]:
        print("DIFFERS %s(%s): oracle %s; %s" % (d["bif"], ", ".join(d["args"]), d["want"], why))
    print(json.dumps({"judged": judged, "oracle_says_invalid": invalid, "skipped": skipped, "differ": len(differ)}))
    return 1 if differ else 0


if __name__ == "__main__":
    sys.exit(main())
