#!/bin/bash
# Which lines of /repo does the correspondence harness execute?  (a measure of the generators, not a check)
# usage: lib/coverage.sh [tier] [seed] [props…]   — builds the harness with -C instrument-coverage on the nightly
# toolchain into /tmp/cov/target, runs every property's harness, merges the profiles, writes
# /tmp/cov/all.lcov and prints the per-file summary.  lib/uncovered.py lists the lines never executed.
set -u
tier=${1:-quick}; seed=${2:-1}; shift 2 2>/dev/null
props=${*:-$(seq -f 'C%02g' 1 20)}
B=$(dirname "$(rustup which --toolchain nightly rustc)")/../lib/rustlib/x86_64-unknown-linux-gnu/bin
mkdir -p /tmp/cov/prof /tmp/cov/rep
# build scripts are instrumented too and would write default_*.profraw into their package directories under /repo
(cd /verif/harness && LLVM_PROFILE_FILE=/tmp/cov/prof/build/%p-%m.profraw CARGO_TARGET_DIR=/tmp/cov/target RUSTFLAGS="--cfg dmntk_verif -C instrument-coverage" cargo +nightly build --offline 2>&1 | tail -1; rm -rf /tmp/cov/prof/build)
run() {
  p=$1
  cd /verif
  VHARNESS_TERM=1 LLVM_PROFILE_FILE=/tmp/cov/prof/$p/%p-%m.profraw /tmp/cov/target/debug/vharness $p --tier $tier --seed $seed \
    --driver /verif/lean/.lake/build/bin/dmn_driver --report /tmp/cov/rep/$p.json > /tmp/cov/rep/$p.out 2>&1
  echo "$p rc=$?"
  find /tmp/cov/prof/$p -name '*.profraw' > /tmp/cov/$p.list
  $B/llvm-profdata merge -sparse -o /tmp/cov/$p.profdata -f /tmp/cov/$p.list && rm -rf /tmp/cov/prof/$p /tmp/cov/$p.list
}
export -f run; export tier seed B
echo $props | tr ' ' '\n' | xargs -P 8 -I{} bash -c 'run {}'
$B/llvm-profdata merge -sparse -o /tmp/cov/all.profdata /tmp/cov/C*.profdata
$B/llvm-cov export /tmp/cov/target/debug/vharness -instr-profile=/tmp/cov/all.profdata -format=lcov --ignore-filename-regex='(registry|rustc|/verif/|/tmp/)' > /tmp/cov/all.lcov 2>/dev/null
$B/llvm-cov report /tmp/cov/target/debug/vharness -instr-profile=/tmp/cov/all.profdata --ignore-filename-regex='(registry|rustc|/verif/|/tmp/)' 2>/dev/null | awk '{print $1, $4, $10}' | column -t
