#!/bin/sh
# Refresh the committed snapshot of the translated tables (used by check's failing-input search, step 5a).
# Run on the unchanged /repo after the translators have run (any ./check does that), before committing.
cd "$(dirname "$0")/.." && mkdir -p lean/snapshots/Gen && cp lean/Dmn/Gen/*.lean lean/snapshots/Gen/ && ls lean/snapshots/Gen | wc -l
