#!/usr/bin/env python3
"""Point the `commit` of fixed entries of a known_findings.json at the commits of a branch (matched by subject).
usage: remap_fixed.py <known_findings.json> <repo dir> <branch>"""
import json, subprocess, sys
p, repo, br = sys.argv[1:4]
dst = json.load(open(p))
new = {}
for l in subprocess.run(['git', '-C', repo, 'log', '--format=%h\t%s', br], capture_output=True, text=True).stdout.strip().split('\n'):
    h, s = l.split('\t', 1); new.setdefault(s, h)
n = 0
for f in dst['findings']:
    c = f.get('commit')
    if f.get('status') == 'fixed' and c and ',' not in c:
        r = subprocess.run(['git', '-C', repo, 'merge-base', '--is-ancestor', c, br], capture_output=True)
        if r.returncode != 0:
            s = subprocess.run(['git', '-C', repo, 'log', '-1', '--format=%s', c], capture_output=True, text=True).stdout.strip()
            if s in new:
                old = c; f['commit'] = new[s]; n += 1
                for k in ('what', 'signature'):
                    if k in f and old in f[k]:
                        f[k] = f[k].replace(old, new[s])
            else:
                print('no mapping for', f['property'], f['id'], c, s[:60])
print('remapped', n)
json.dump(dst, open(p, 'w'), indent=1, ensure_ascii=False)
