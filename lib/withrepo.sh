#!/bin/sh
# Run a command with another directory mounted at /repo (private mount namespace), e.g. a scratch
# worktree with a candidate fix:   lib/withrepo.sh /tmp/fix/temporal ./check C14
# Nothing outside the command sees the mount.
dir="$1"; shift
[ -d "$dir" ] || { echo "no such directory: $dir" >&2; exit 2; }
exec unshare --mount sh -c 'mount --bind "$0" /repo && exec "$@"' "$dir" "$@"
