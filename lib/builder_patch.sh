#!/bin/sh
# Patch of a builder's scratch copy relative to the /verif commit it was copied from (found as the recent commit with
# the fewest differing files).  usage: lib/builder_patch.sh <name>   -> /tmp/w/<name>/builder.patch, prints the base commit
name="$1"; src=/tmp/w/$name/verif
best=""; bestn=999999
for c in $(git -C /verif log --format=%h -n 25); do
  d=/tmp/w/.base-$c
  if [ ! -d $d ]; then mkdir -p $d && git -C /verif archive $c | tar -x -C $d; fi
  n=$(diff -rq -x .build -x .lake -x evidence -x replays -x seeded -x __pycache__ -x '*.olean' -x MANIFEST.json -x lake-manifest.json $d $src 2>/dev/null | grep -v '^Only in '"$src"'/\(\.build\|lean/\.lake\)' | wc -l)
  if [ "$n" -lt "$bestn" ]; then bestn=$n; best=$c; fi
done
echo "base=$best differing=$bestn"
wt=/tmp/w/.bp-$name; rm -rf $wt; mkdir -p $wt && git -C /verif archive $best | tar -x -C $wt
(cd $wt && git init -q && git add -A >/dev/null && git -c user.name=x -c user.email=x@x commit -q -m base)
rsync -a --exclude .git --exclude .build --exclude .lake --exclude evidence --exclude replays --exclude seeded --exclude __pycache__ --exclude MANIFEST.json --exclude 'lake-manifest.json' $src/ $wt/
(cd $wt && git add -A >/dev/null && git diff --cached --binary > /tmp/w/$name/builder.patch; git diff --cached --stat | tail -40)
rm -rf $wt
