"""Data for MANIFEST.json (see manifest_gen.py)."""

HOOK_COMMITS = ["d05b882"]

NOTES = ("Every check is `./check Cxx`: regenerate translated tables from /repo, `lake build` the property's theorems, "
         "audit axioms, rebuild the harness against /repo's working tree, run implementation and Lean model on the same "
         "generated inputs, classify disagreements (impl-vs-spec = violation with replay; impl-vs-model or a broken proof "
         "obligation with no failing input = VIOLATION ... no-failing-input-found). See DESIGN.md.")

CHECKS = {
    "C16": {
        "text": ("Theorems for all FEEL types of any depth/arity (equiv is an equivalence; conf is reflexive, transitive, has Any as top and Null as bottom, "
                 "contains equiv, is covariant in list/range/context/function-result and contravariant in parameters; function types with non-equivalent "
                 "results are never equivalent; coerced returns v, [v], the single item or null and its result always conforms; idempotent) about a Lean model "
                 "that mirrors types.rs line by line; the model is tied to the code by exhaustive-pair and random differential runs of is_equivalent / "
                 "is_conformant / type_of / coerced, and the laws are also evaluated on the implementation's own answers."),
        "design_ref": "DESIGN.md §4 C16",
        "note": "Trusted: Lean kernel (axioms propext, Classical.choice, Quot.sound at most), hand-written model + correspondence harness, BTreeMap key distinctness.",
        "technique": "Lean 4 proof over hand-written model + differential correspondence with the Rust API",
    },
    "C17": {
        "text": ("Theorems for every history of add/remove/replace/clear/deploy of any length over any models: the representation invariant (indexes describe the list; "
                 "namespaces and names pairwise distinct) is preserved by every step and holds in every reachable state; the stored list refines the abstract "
                 "list specification step by step with equal Ok/Err results; add succeeds iff namespace and name are fresh; remove/replace leave no stale reservation "
                 "(replace always succeeds); evaluation is possible exactly for the models stored and building at the last deploy with no modification since. "
                 "The model mirrors workspace.rs statement by statement and is tied to it by exhaustive short histories and random long ones, observed through the "
                 "verif_snapshot hook and through add errors / evaluate_invocable."),
        "design_ref": "DESIGN.md §4 C17",
        "note": "Trusted: Lean kernel, model + harness, std HashMap semantics; ModelEvaluator::new outcome is a parameter (builds flag).",
        "technique": "Lean 4 invariant + refinement proof over hand-written state-machine model + differential correspondence (hook snapshot)",
    },
}

_PENDING = "check under construction in this session; not claimed yet"
NOT_APPLICABLE = {pid: _PENDING for pid in
                  ["C01", "C02", "C03", "C04", "C05", "C06", "C07", "C08", "C09", "C10", "C11", "C12", "C13", "C14", "C15", "C18", "C19", "C20"]}
