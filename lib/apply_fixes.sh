#!/bin/sh
# Cherry-pick a builder's fix commits (branch fix-<name>, based on $2 or 6db5092) onto /repo main.
# Prints "old=new" sha pairs for lib/merge_findings.py.
name="$1"; base="${2:-6db5092}"
for c in $(git -C /repo rev-list --reverse "$base..fix-$name"); do
  if git -C /repo cherry-pick "$c" >/dev/null 2>&1; then
    echo "$(git -C /repo rev-parse --short "$c")=$(git -C /repo rev-parse --short HEAD)  $(git -C /repo log -1 --format=%s)"
  else
    echo "CONFLICT at $c: $(git -C /repo log -1 --format=%s "$c")"; git -C /repo status --short | head; exit 1
  fi
done
