#!/bin/sh
# Parallel test of candidate seeded changes: stdin lines "<prop> <abs patch file>"; N workers, each with a
# private worktree of /repo (HEAD) and a private copy of /verif; result lines in /verif/.build/seedtest-par.txt
N=${1:-4}
cd /verif || exit 2
out=/verif/.build/seedtest-par.txt; : > $out
cat > /tmp/seedtest-par.in
for w in $(seq 1 $N); do
  wt=/tmp/fix/st$w; cp=/tmp/w/st$w
  git -C /repo worktree remove --force $wt 2>/dev/null; rm -rf $cp
  git -C /repo worktree add -q --detach $wt HEAD
  mkdir -p $cp && rsync -a --exclude .git --exclude 'replays/*' /verif/ $cp/verif/
done
worker() {
  w=$1; wt=/tmp/fix/st$w; cp=/tmp/w/st$w/verif
  k=0
  while read prop patch; do
    k=$((k+1)); [ $((k % N)) -eq $((w % N)) ] || continue
    git -C $wt checkout -q -- .
    if ! git -C $wt apply $patch 2>/dev/null; then echo "$prop $patch NOAPPLY" >> $out; continue; fi
    res=$(cd $cp && timeout 3000 lib/withrepo.sh $wt ./check $prop 2>&1)
    v=$(echo "$res" | grep -c "^VIOLATION"); nf=$(echo "$res" | grep "^VIOLATION" | grep -c "no-failing-input-found")
    echo "$prop $patch violations=$v no-failing-input=$nf $(echo "$res" | grep "quick:" | sed 's/.*obligations discharged, //' | cut -c1-60) $(echo "$res" | grep -c CHECK-ERROR)" >> $out
    git -C $wt checkout -q -- .
  done < /tmp/seedtest-par.in
}
for w in $(seq 1 $N); do worker $w & done
wait
for w in $(seq 1 $N); do git -C /repo worktree remove --force /tmp/fix/st$w; rm -rf /tmp/w/st$w; done
echo DONE >> $out
