#!/bin/sh
# Scratch copy of /verif for a builder: /tmp/w/<name>/verif (own lake build dir and cargo target).
set -e
name="$1"
rm -rf "/tmp/w/$name"
mkdir -p "/tmp/w/$name"
cp -a /verif "/tmp/w/$name/verif"
rm -rf "/tmp/w/$name/verif/.git"
echo "/tmp/w/$name/verif"
