import re
src=open('/repo/model/src/model/parser.rs').read()
nodes=re.findall(r'^const (NODE_[A-Z_]+): &str = "([^"]+)";',src,re.M)
attrs=re.findall(r'^const (ATTR_[A-Z_]+): &str = "([^"]+)";',src,re.M)
def camel(c):
    parts=c.lower().split('_')
    r=parts[0]+''.join(p.capitalize() for p in parts[1:])
    return r+'_' if r in ('import','variable','namespace','end','open','at','from','in','local') else r
out=[]
out.append('''/-!
# Names of XML elements and attributes read by `model/src/model/parser.rs` (lines 41-142)

Strings are lists of Unicode code points (kernel-reducible; see CONVENTIONS.md).  One constant per
`const NODE_* / ATTR_*` of parser.rs, plus the literal texts the parser compares attribute values
with.  The comment after each constant is the text.  Written once by lib/gen_xml_names.py and then
fixed on purpose (not a translator): a renamed constant in parser.rs shows as impl_vs_model.
-/

namespace Dmn.Xml

/-- A string as the list of its Unicode scalar values. -/
abbrev Str := List Nat

namespace N
''')
for c,v in nodes:
    name=camel(c[5:])
    out.append(f'def {name} : Str := {[ord(ch) for ch in v]}  -- {c} = "{v}"')
out.append('end N\n\nnamespace A')
for c,v in attrs:
    name=camel(c[5:])
    out.append(f'def {name} : Str := {[ord(ch) for ch in v]}  -- {c} = "{v}"')
out.append('end A\n\nnamespace L')
lits={'true':'true','false':'false','feel':'FEEL','java':'Java','pmml':'PMML','unique':'UNIQUE','any':'ANY','priority':'PRIORITY','first':'FIRST','ruleOrder':'RULE ORDER','outputOrder':'OUTPUT ORDER','collect':'COLLECT','count':'COUNT','sum':'SUM','min':'MIN','max':'MAX','ruleAsRow':'Rule-as-Row','ruleAsColumn':'Rule-as-Column','crossTable':'CrossTable','start':'start','end_':'end','center':'center','arial':'Arial','nan':'nan','inf':'inf','infinity':'infinity',
'tString':'string','tNumber':'number','tBoolean':'boolean','tDate':'date','tTime':'time','tDateTime':'dateTime','tDayTimeDuration':'dayTimeDuration','tYearMonthDuration':'yearMonthDuration'}
for k,v in lits.items():
    out.append(f'def {k} : Str := {[ord(ch) for ch in v]}  -- "{v}"')
out.append('end L\n\nend Dmn.Xml')
open(__import__('sys').argv[1] if len(__import__('sys').argv) > 1 else 'lean/Dmn/Model/XmlNames.lean','w').write('\n'.join(out)+'\n')
print(len(nodes),len(attrs))
