#!/usr/bin/env python3
"""Merge the known_findings entries of a builder's copy for the given properties into /verif."""
import json, sys
name = sys.argv[1]; props = sys.argv[2].split(",")
mine = json.load(open("/verif/known_findings.json"))
theirs = json.load(open("/tmp/w/%s/verif/known_findings.json" % name))
have = {(e["property"], e["id"]) for e in mine["findings"]}
n = 0
for e in theirs["findings"]:
    if e["property"] in props and (e["property"], e["id"]) not in have:
        mine["findings"].append(e); n += 1
json.dump(mine, open("/verif/known_findings.json", "w"), indent=1)
print("added", n, "findings for", props)
