#!/usr/bin/env python3
"""Merge the known_findings entries of a builder's copy for the given properties into /verif.
usage: merge_findings.py <name> <props,comma> [--replace] [old_sha=new_sha ...]
Without --replace only new entries are added; with it, entries with the same (property, id)
are replaced by the builder's version. sha pairs rewrite the `commit` field of fixed entries."""
import json, sys
name = sys.argv[1]; props = sys.argv[2].split(",")
replace = "--replace" in sys.argv
shamap = dict(a.split("=") for a in sys.argv[3:] if "=" in a)
mine = json.load(open("/verif/known_findings.json"))
theirs = json.load(open("/tmp/w/%s/verif/known_findings.json" % name))
index = {(e["property"], e["id"]): i for i, e in enumerate(mine["findings"])}
added = replaced = 0
for e in theirs["findings"]:
    if e["property"] not in props:
        continue
    c = str(e.get("commit") or "")
    for old, new in shamap.items():
        if c and (old.startswith(c) or c.startswith(old)):
            e["commit"] = new
    k = (e["property"], e["id"])
    if k not in index:
        mine["findings"].append(e); added += 1
    elif replace and mine["findings"][index[k]] != e:
        mine["findings"][index[k]] = e; replaced += 1
json.dump(mine, open("/verif/known_findings.json", "w"), indent=1)
print("added", added, "replaced", replaced, "for", props)
