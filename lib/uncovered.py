#!/usr/bin/env python3
"""Lists the lines of /repo (outside #[cfg(test)] modules) that no harness run executed.
usage: lib/uncovered.py [lcov file] <path fragment>…      (after lib/coverage.sh)"""
import sys, collections
args = sys.argv[1:]
lcov = "/tmp/cov/all.lcov"
if args and args[0].endswith(".lcov"):
    lcov = args.pop(0)
cur = None
unc = collections.defaultdict(list)
for l in open(lcov):
    l = l.strip()
    if l.startswith("SF:"):
        cur = l[3:]
    elif l.startswith("DA:"):
        n, c = l[3:].split(",")[:2]
        if int(c) == 0:
            unc[cur].append(int(n))
for f in sorted(unc):
    if "/tests/" in f or (args and not any(a in f for a in args)):
        continue
    src = open(f).read().split("\n")
    cut = len(src)
    for i, l in enumerate(src):
        if l.strip().startswith("#[cfg(test)]"):
            cut = i
            break
    ls = [n for n in unc[f] if n <= cut]
    if not ls:
        continue
    print("=====", f, len(ls))
    runs = []
    for n in ls:
        if runs and n == runs[-1][1] + 1:
            runs[-1][1] = n
        else:
            runs.append([n, n])
    for a, b in runs:
        print("%d-%d: %s" % (a, b, src[a - 1].strip()[:160]))
